"""C20 — merging a stub into source changes annotations only.

Proof: coq/Props/C20.v over the model coq/Merge/Model.v (pytype's two stub transformers as written +
libcst's TypeCollector / ApplyTypeAnnotationsVisitor / AddImportsVisitor under pytype's flags).
Tie: generated programs x generated stubs for the same definitions (thorough: also the stub pytype
really infers) go through the real merge_pyi.merge_sources; its output is parsed with `ast`, projected
to the mini tree and compared token for token with the model's output (coqc / vm_compute).  The model
exists in two variants of RemoveAnyNeverTransformer.leave_AnnAssign (as written / with
fixes/C20-annassign-any.patch); the correspondence decides which one the tree under test follows.
Oracle (independent of the model), on the real output: compiles; ast equal to the original's after
erasing annotations + added typing imports/TypeVars; existing annotations kept; inserted annotations
are the stub's for that definition; no bare Any/Never inserted at returns/variables.
"""
import ast
import copy
import json
import os
import re
import subprocess
import time

import common
import c20_ctx as cx
import c20_files as ff
import c20_gen as gen
import c20_proj as proj

PID = "C20"
CASES_PER_FILE = 60


# ---------------------------------------------------------------------------------------------
# implementation

def impl_merge(py, pyi):
  from pytype.tools.merge_pyi import merge_pyi
  try:
    return merge_pyi.merge_sources(py=py, pyi=pyi), None
  except merge_pyi.MergeError as e:
    return None, str(e)


# ---------------------------------------------------------------------------------------------
# the direct oracle on the real output

def _dump(n):
  return ast.dump(n)


class _Erase(ast.NodeTransformer):
  """Remove every annotation and annotation-only statement."""

  def visit_arg(self, node):
    node.annotation = None
    return node

  def _fun(self, node):
    self.generic_visit(node)
    node.returns = None
    return node

  visit_FunctionDef = _fun
  visit_AsyncFunctionDef = _fun

  def visit_AnnAssign(self, node):
    if node.value is None:
      return None
    return ast.Assign(targets=[node.target], value=node.value, type_comment=None)


def erased_dump(stmt):
  s = _Erase().visit(copy.deepcopy(stmt))
  return None if s is None else ast.dump(s)


def _is_typevar_def(st):
  return (isinstance(st, ast.Assign) and isinstance(st.value, ast.Call) and
          isinstance(st.value.func, ast.Name) and st.value.func.id == "TypeVar")


def _import_superset(o, m):
  """m is the same `from X import ...` as o with names added in front."""
  if not (isinstance(o, ast.ImportFrom) and isinstance(m, ast.ImportFrom)):
    return False
  if (o.module, o.level) != (m.module, m.level):
    return False
  on = [(a.name, a.asname) for a in o.names]
  mn = [(a.name, a.asname) for a in m.names]
  return len(mn) >= len(on) and mn[len(mn) - len(on):] == on


def align_module(orig, out):
  """Pairs the statements of the original module with those of the output; everything unpaired in the
  output was inserted by the merge.  Returns (pairs, added) or raises ValueError when some original
  statement has no counterpart."""
  pairs, added = [], []
  i = 0
  ob = orig.body
  for st in out.body:
    if i < len(ob):
      o = ob[i]
      if type(o) is type(st) or (isinstance(o, ast.Assign) and isinstance(st, ast.AnnAssign)):
        same = erased_dump(o) == erased_dump(st) and not (isinstance(st, ast.AnnAssign) and st.value is None
                                                         and not (isinstance(o, ast.AnnAssign) and _dump(o) == _dump(st)))
        if not same and _import_superset(o, st):
          same = True
        if not same and isinstance(o, ast.ClassDef) and o.name == st.name:
          same = True          # compared in depth later (reports the precise difference)
        if same:
          pairs.append((o, st))
          i += 1
          continue
    added.append(st)
  if i != len(ob):
    raise ValueError("original statement #%d (%s) has no counterpart in the output" % (i, type(ob[i]).__name__))
  return pairs, added


def _unquote(a):
  """A quoted bare name is the same annotation as the name (libcst quotes forward references)."""
  if isinstance(a, ast.Constant) and isinstance(a.value, str) and a.value.isidentifier():
    return ast.Name(id=a.value, ctx=ast.Load())
  return a


def _ann_key(a):
  return None if a is None else _dump(_unquote(a))


def _shape(args):
  return (len(args.args), ",".join(sorted(a.arg for a in args.kwonlyargs)), len(args.posonlyargs),
          args.vararg is not None or bool(args.kwonlyargs), args.kwarg is not None)


def stub_table(pyi_tree):
  """qualname -> list of function defs / variable annotations, with TRUE qualified names."""
  funs, vars_ = {}, {}
  def walk(body, chain):
    for st in body:
      if isinstance(st, (ast.FunctionDef, ast.AsyncFunctionDef)):
        funs.setdefault(".".join(chain + [st.name]), []).append(st)
      elif isinstance(st, ast.ClassDef):
        walk(st.body, chain + [st.name])
      elif isinstance(st, ast.AnnAssign) and isinstance(st.target, ast.Name):
        vars_.setdefault(".".join(chain + [st.target.id]), []).append(st.annotation)
      else:
        for f in ("body", "orelse", "finalbody"):
          sub = getattr(st, f, None)
          if isinstance(sub, list) and sub and isinstance(sub[0], ast.stmt):
            walk(sub, chain)
        for h in getattr(st, "handlers", []) or []:
          walk(h.body, chain)
        for c in getattr(st, "cases", []) or []:
          walk(c.body, chain)
  walk(pyi_tree.body, [])
  return funs, vars_


class _Dequalify(ast.NodeTransformer):
  """What libcst's _TypeCollectorDequalifier does to dotted names: a.b.c -> c, at any depth, except
  below the slice of Type[...]."""

  def visit_Attribute(self, node):
    return ast.Name(id=node.attr, ctx=ast.Load())

  def visit_Subscript(self, node):
    h = node.value
    is_type = (isinstance(h, ast.Name) and h.id == "Type") or (
        isinstance(h, ast.Attribute) and isinstance(h.value, ast.Name) and (h.value.id, h.attr) == ("typing", "Type"))
    node.value = self.visit(h)
    if not is_type:
      node.slice = self.visit(node.slice)
    return node


def _has_dotted(a):
  return any(isinstance(x, ast.Attribute) for x in ast.walk(a))


def _dequalified_keys(anns):
  """Keys of the stub annotations that contain a dotted name, after libcst's rewriting."""
  return {_ann_key(_Dequalify().visit(copy.deepcopy(a))) for a in anns if a is not None and _has_dotted(a)}


def _is_bare(a, names=("Any", "Never")):
  return isinstance(a, ast.Name) and a.id in names


class Finding:
  def __init__(self, kind, what, cause=None):
    self.kind, self.what, self.cause = kind, what, cause

  def __repr__(self):
    return "%s: %s" % (self.kind, self.what)


def _scope_facts(tree):
  """Root causes visible in the ORIGINAL program (function bodies are never visited by the merge):
  names bound by a chained (`a = b = v`) or destructuring (tuple/list/starred, also mixed with attribute
  or subscript elements) assignment somewhere inside a class body, and qualified names that are
  assigned more than once by a plain single-name assignment."""
  hoistable, counts = set(), {}
  def names_of(t):
    if isinstance(t, ast.Name):
      yield t.id
    elif isinstance(t, (ast.Tuple, ast.List)):
      for e in t.elts:
        yield from names_of(e)
    elif isinstance(t, ast.Starred):
      yield from names_of(t.value)
    elif isinstance(t, (ast.Attribute, ast.Subscript)):
      yield from names_of(t.value)        # libcst's get_full_name_for_node looks through these
  def walk(body, chain):
    for st in body:
      if isinstance(st, (ast.FunctionDef, ast.AsyncFunctionDef)):
        continue
      if isinstance(st, ast.ClassDef):
        walk(st.body, chain + [st.name])
      elif isinstance(st, ast.Assign):
        if len(st.targets) == 1 and isinstance(st.targets[0], ast.Name):
          q = ".".join(chain + [st.targets[0].id])
          counts[q] = counts.get(q, 0) + 1
        elif chain:
          for t in st.targets:
            hoistable.update(names_of(t))
      else:
        for f in ("body", "orelse", "finalbody"):
          sub = getattr(st, f, None)
          if isinstance(sub, list) and sub and isinstance(sub[0], ast.stmt):
            walk(sub, chain)
        for h in (getattr(st, "handlers", None) or []) + (getattr(st, "cases", None) or []):
          walk(h.body, chain)
  walk(tree.body, [])
  return hoistable, {q for q, n in counts.items() if n > 1}


def oracle(py, pyi, out):
  """Returns a list of Finding (empty = the property holds on this input)."""
  res = []
  try:
    compile(out, "<merged>", "exec", dont_inherit=True)
  except SyntaxError as e:
    return [Finding("output-does-not-compile", str(e))]
  o_tree, m_tree, s_tree = ast.parse(py), ast.parse(out), ast.parse(pyi)
  funs, vars_ = stub_table(s_tree)
  hoistable, reassigned = _scope_facts(o_tree)
  leak_possible = bool(reassigned & set(vars_))     # a re-assigned name the stub annotates

  def slot(kind, qn, o_ann, m_ann, stub_anns, where):
    """One annotation slot of a paired definition."""
    if o_ann is not None:
      if m_ann is None or _dump(o_ann) != _dump(m_ann):
        res.append(Finding("existing-annotation-changed", where))
      return
    if m_ann is None:
      return
    want = {_ann_key(a) for a in stub_anns if a is not None}
    via_dotted = _ann_key(m_ann) not in want and _ann_key(m_ann) in _dequalified_keys(stub_anns)
    dotted_txt = "/".join(ast.unparse(a) for a in stub_anns if a is not None and _has_dotted(a))
    if kind in ("ret", "var") and _is_bare(m_ann) and not via_dotted:
      res.append(Finding("bare-any-never-inserted:" + kind, "%s gets `%s`" % (where, m_ann.id)))
    if qn is None:
      res.append(Finding("annotation-inserted-in-function-body", where))
      return
    if via_dotted:
      # root cause: a dotted name (at any depth) of the stub annotation was rewritten to its last component
      res.append(Finding("dotted-annotation-dequalified", "%s gets `%s`, the stub says `%s`" % (
          where, ast.unparse(m_ann), dotted_txt)))
    elif _ann_key(m_ann) not in want:
      res.append(Finding("inserted-annotation-not-the-stubs", "%s gets `%s`, the stub gives %s" % (
          where, ast.unparse(m_ann), sorted(ast.unparse(a) for a in stub_anns if a is not None) or "nothing"),
          cause="reassigned-annotated-name" if leak_possible else None))

  def cmp_fun(o, m, qn):
    if _Erase().visit(copy.deepcopy(o)) is None:
      return
    if erased_dump(o) != erased_dump(m):
      res.append(Finding("ast-changed", "function %s differs beyond annotations" % o.name))
      return
    cands = [f for f in funs.get(qn, []) if _shape(f.args) == _shape(o.args)] if qn is not None else []
    slot("ret", qn, o.returns, m.returns, [f.returns for f in cands], "return of %s" % (qn or o.name))
    for grp in ("posonlyargs", "args"):
      for i, (a, b) in enumerate(zip(getattr(o.args, grp), getattr(m.args, grp))):
        slot("param", qn, a.annotation, b.annotation,
             [getattr(f.args, grp)[i].annotation for f in cands], "parameter %s of %s" % (a.arg, qn or o.name))
    for a, b in zip(o.args.kwonlyargs, m.args.kwonlyargs):
      slot("param", qn, a.annotation, b.annotation,
           [x.annotation for f in cands for x in f.args.kwonlyargs if x.arg == a.arg],
           "keyword-only parameter %s of %s" % (a.arg, qn or o.name))
    for a, b in ((o.args.vararg, m.args.vararg), (o.args.kwarg, m.args.kwarg)):
      if a is not None:
        slot("param", qn, a.annotation, b.annotation, [], "star parameter %s of %s" % (a.arg, qn or o.name))
    # bodies are identical after erasure; existing annotations inside must be untouched too
    if [_dump(x) for x in o.body] != [_dump(x) for x in m.body]:
      res.append(Finding("annotation-inserted-in-function-body", "body of %s" % (qn or o.name)))

  def cmp_body(ob, mb, chain, where):
    """Statement lists below module level: same length, pairwise."""
    if len(ob) != len(mb):
      res.append(Finding("ast-changed", "%s: %d statements became %d" % (where, len(ob), len(mb))))
      return
    for o, m in zip(ob, mb):
      cmp_stmt(o, m, chain)

  def cmp_stmt(o, m, chain):
    if isinstance(o, (ast.FunctionDef, ast.AsyncFunctionDef)) and type(o) is type(m):
      cmp_fun(o, m, ".".join(chain + [o.name]))
    elif isinstance(o, ast.ClassDef) and isinstance(m, ast.ClassDef):
      ho, hm = copy.copy(o), copy.copy(m)
      ho.body, hm.body = [], []
      if _dump(ho) != _dump(hm):
        kind = "generic-base-added" if len(m.bases) == len(o.bases) + 1 else "ast-changed"
        res.append(Finding(kind, "class header of %s changed to %s" % (o.name, ast.unparse(hm).split(":")[0])))
      cmp_body(o.body, m.body, chain + [o.name], "class " + o.name)
    elif isinstance(o, ast.Assign) and isinstance(m, ast.AnnAssign):
      if erased_dump(o) != erased_dump(m):
        res.append(Finding("ast-changed", "assignment changed beyond its annotation"))
      elif isinstance(m.target, ast.Name):
        qn = ".".join(chain + [m.target.id])
        slot("var", qn, None, m.annotation, vars_.get(qn, []), "variable " + qn)
      else:
        res.append(Finding("inserted-annotation-not-the-stubs", "annotation on a non-name target"))
    elif isinstance(o, ast.AnnAssign) and isinstance(m, ast.AnnAssign):
      if _dump(o) != _dump(m):
        res.append(Finding("existing-annotation-changed", "annotated assignment " + ast.unparse(o.target)))
    elif type(o) is not type(m):
      res.append(Finding("ast-changed", "%s became %s" % (type(o).__name__, type(m).__name__)))
    else:
      subs = False
      for f in ("body", "orelse", "finalbody"):
        so, sm = getattr(o, f, None), getattr(m, f, None)
        if isinstance(so, list) and so and isinstance(so[0], ast.stmt):
          subs = True
          cmp_body(so, sm, chain, type(o).__name__)
      for f in ("handlers", "cases"):
        for ho, hm in zip(getattr(o, f, []) or [], getattr(m, f, []) or []):
          subs = True
          cmp_body(ho.body, hm.body, chain, type(o).__name__)
      if erased_dump(o) != erased_dump(m) and not (_import_superset(o, m) and o.module == "typing"):
        res.append(Finding("ast-changed", "%s statement differs beyond annotations" % type(o).__name__))

  try:
    pairs, added = align_module(o_tree, m_tree)
  except ValueError as e:
    return [Finding("ast-changed", str(e))]
  for st in added:
    if isinstance(st, ast.ImportFrom) and st.module == "typing" and st.level == 0:
      continue
    if isinstance(st, ast.ImportFrom):
      res.append(Finding("non-typing-import-added", "`%s` was added" % ast.unparse(st)))
    elif _is_typevar_def(st):
      continue
    elif isinstance(st, ast.AnnAssign) and st.value is None and isinstance(st.target, ast.Name):
      qn = st.target.id
      given = vars_.get(qn, [])
      want = {_ann_key(a) for a in given}
      key = _ann_key(st.annotation)
      via_dotted = key not in want and key in _dequalified_keys(given)
      if _is_bare(st.annotation) and not via_dotted:
        res.append(Finding("bare-any-never-inserted:var", "declaration `%s` inserted" % ast.unparse(st)))
      if via_dotted:
        res.append(Finding("dotted-annotation-dequalified", "module-level `%s` inserted, the stub says `%s`" % (
            ast.unparse(st), "/".join(ast.unparse(a) for a in given if _has_dotted(a)))))
      elif key not in want:
        res.append(Finding("hoisted-declaration-not-the-stubs", "module-level `%s` inserted, the stub gives %s for %s" % (
            ast.unparse(st), sorted(ast.unparse(a) for a in given) or "nothing", qn),
            cause="class-level-chained-or-destructuring-assignment" if qn in hoistable else
                  ("reassigned-annotated-name" if leak_possible else None)))
    elif isinstance(st, ast.ClassDef):
      res.append(Finding("fresh-class-inserted", "class %s of the stub was inserted into the source" % st.name))
    else:
      res.append(Finding("ast-changed", "statement `%s` was inserted" % ast.unparse(st)[:60]))
  for o, m in pairs:
    cmp_stmt(o, m, [])
  return res


def _stub_has_dotted(pyi):
  tree = ast.parse(pyi)
  anns = []
  for n in ast.walk(tree):
    if isinstance(n, (ast.FunctionDef, ast.AsyncFunctionDef)) and n.returns is not None:
      anns.append(n.returns)
    elif isinstance(n, ast.arg) and n.annotation is not None:
      anns.append(n.annotation)
    elif isinstance(n, ast.AnnAssign):
      anns.append(n.annotation)
    elif isinstance(n, ast.ClassDef):
      anns.extend(n.bases)
  return any(isinstance(x, ast.Attribute) for a in anns for x in ast.walk(a))


# fingerprints: oracle finding kind (+ cause established by the model's monitors) -> stable name
def fingerprint(f, variant, bits):
  k = f.kind
  if k == "bare-any-never-inserted:var":
    return "annassign-any-not-stripped" if variant == "as-written" else "annassign-any-inserted-despite-fix"
  if k in ("dotted-annotation-dequalified", "non-typing-import-added"):
    return "dotted-annotation-bogus-import"
  # root cause first (established by the oracle on the original program), the model's monitor second
  if k == "inserted-annotation-not-the-stubs" and (f.cause == "reassigned-annotated-name" or bits & 4):
    return "reassigned-variable-qualifier-leak"
  if k == "hoisted-declaration-not-the-stubs":
    if f.cause == "class-level-chained-or-destructuring-assignment":
      return "chained-assign-declaration-hoisted"
    if f.cause == "reassigned-annotated-name" or bits & 4:
      return "reassigned-variable-qualifier-leak"      # module-level destructuring under a leaked qualifier
    if bits & 8:
      return "chained-assign-declaration-hoisted"
  return k


# ---------------------------------------------------------------------------------------------
# model side

HEADER = ("From Coq Require Import List NArith Bool.\nFrom PV Require Import Merge.Model.\n"
          "Import ListNotations.\nOpen Scope N_scope.\n")


def make_case(py, pyi, out, err):
  """Returns (coq text of (program, stub), token stream of the real output) or raises NotExplorable."""
  p = proj.project(py)
  s = proj.project(pyi, stub=True)
  o = proj.project(out, strict=False) if out is not None else ()
  it = proj.Interner([p, s, o])
  pi, si = it.tree(p), it.tree(s)
  expected = [999] if out is None else proj.ser_module(it.tree(o))
  text = "(%s,\n %s)" % (proj.coq(pi), proj.coq(si))
  return text, expected


def hash_tokens(toks):
  """Model.hash_tokens."""
  h = 7
  for t in toks:
    h = (h * 1000003 + t + 1) % 2305843009213693951
  return h


def run_model(cases, tag):
  """cases: list of coq case texts.  Returns a list of (hash as-written, hash fixed, monitor bits of the
  as-written run, monitor bits of the fixed run) (None where the model run failed)."""
  files = []
  for k in range(0, len(cases), CASES_PER_FILE):
    chunk = cases[k:k + CASES_PER_FILE]
    body = HEADER + "Definition cases : list (list item * list item) := [\n" + \
        ";\n".join(chunk) + "].\nEval vm_compute in (map check_case cases).\n"
    # the process id keeps concurrent runs (other VERIF_REPO, other seed) from sharing case files
    files.append(("c20_%s_%d_%d" % (tag, os.getpid(), k // CASES_PER_FILE), body, len(chunk)))
  results = {}
  pending = [(n, b) for n, b, _ in files]
  # at most 4 coqc at a time (shared machine)
  while pending:
    batch, pending = pending[:4], pending[4:]
    results.update(common.run_cases_parallel(batch))
  out = []
  logs = []
  for n, _, cnt in files:
    ok, txt = results[n]
    vals = None
    if ok:
      ev = common.parse_coq_eval(txt)
      if ev:
        nums = [int(x) for x in re.findall(r"\d+", ev[0])]
        vals = [tuple(nums[i:i + 4]) for i in range(0, len(nums), 4)] if len(nums) % 4 == 0 else None
    if vals is None or len(vals) != cnt:
      logs.append("%s: %s" % (n, txt[-1500:]))
      out += [None] * cnt
    else:
      out += vals
      for ext in (".v", ".vo", ".vok", ".vos", ".glob"):
        try:
          os.unlink(os.path.join(common.BUILD, "cases", n + ext))
        except OSError:
          pass
  return out, logs


def model_tokens(case_text, variant):
  body = HEADER + "Eval vm_compute in (let '(p, s) := %s in ser_merged (merge %s p s)).\n" % (
      case_text, "AsWritten" if variant == "as-written" else "Fixed")
  ok, txt = common.run_cases_v("c20_debug_%d" % os.getpid(), body)
  ev = common.parse_coq_eval(txt) if ok else []
  return [int(x) for x in re.findall(r"\d+", ev[0])] if ev else txt[-800:]


# ---------------------------------------------------------------------------------------------
# inputs

def corpus_cases():
  cdir = os.path.join(common.CORPUS, PID)
  out = []
  for f in sorted(os.listdir(cdir)) if os.path.isdir(cdir) else []:
    d = json.load(open(os.path.join(cdir, f)))
    if "ftree" in d:          # a directory-tree case of the file-level correspondence (c20_files.corpus_specs)
      continue
    out.append(("corpus:" + f, d["py"], d["pyi"]))
  return out


def generated_cases(r, n_prog, thorough):
  out = []
  for i in range(n_prog):
    size = r.choice([2, 3, 4, 6, 8, 12] if thorough else [2, 3, 4, 6, 8])
    prog = gen.gen_program(r, size)
    py = gen.render_program(prog)
    try:
      compile(py, "<gen>", "exec", dont_inherit=True)
    except SyntaxError:
      continue
    for mode in ("full", "sparse", "adversarial"):
      out.append(("gen%d:%s" % (i, mode), py, gen.stub_for(r, prog, mode)))
    if thorough:
      out.append(("gen%d:inferred" % i, py, None))
  return out


_LOADER = []


def infer_stub(py):
  from pytype import config, io
  try:
    _, pyi = io.generate_pyi(py, config.Options.create(python_version=(3, 12)))
    return pyi
  except Exception as e:  # UsageError (typeshed), CompileError ... : not explorable
    return None


# ---------------------------------------------------------------------------------------------

def _work(job):
  """One input: real merge, projection to a Coq case, oracle.  Runs in a forked worker."""
  name, py, pyi = job
  d = {"name": name, "py": py}
  if pyi is None:
    pyi = infer_stub(py)
    if pyi is None:
      d["skip"] = "inference-failed"
      return d
    d["inferred"] = True
  d["pyi"] = pyi
  out, err = impl_merge(py, pyi)
  d["out"], d["err"] = out, err
  try:
    d["coq"], d["tokens"] = make_case(py, pyi, out, err)
  except proj.NotExplorable as e:
    d["skip"] = str(e).split(":")[0][:40]
  except SyntaxError:
    d["skip"] = "stub-or-output-unparsable"
    if out is not None:
      try:
        compile(out, "<merged>", "exec", dont_inherit=True)
      except SyntaxError as e:
        d["nocompile"] = str(e)
  if out is not None and "nocompile" not in d:
    try:
      d["findings"] = oracle(py, pyi, out)
    except Exception as e:   # an oracle crash must not pass silently
      d["findings"] = [Finding("oracle-crashed", repr(e))]
  return d


# ---------------------------------------------------------------------------------------------
# file-level leg: the real entry points (merge_files / main -i / merge_tree) in a scratch directory

FILE_ENTRIES = ("merge_files", "main", "merge_tree")


def long_case(n=60):
  """Many lines, one small insertion: a CRLF input shrinks by more bytes than the merge adds."""
  py = "".join("v%d = f(%d)\n" % (i, i) for i in range(n)) + "def g(a):\n  return a\n"
  return py, "v0: list[int]\ndef g(a: list[int]) -> None: ...\n"


def file_case(py, pyi, newline, backup, entry, workdir):
  """Runs one file-level merge.  Returns a list of Finding (kinds file-*)."""
  import contextlib
  import io as _io
  import shutil
  from pytype.tools.merge_pyi import main as merge_main
  from pytype.tools.merge_pyi import merge_pyi
  shutil.rmtree(workdir, ignore_errors=True)
  src_dir, pyi_dir = os.path.join(workdir, "src"), os.path.join(workdir, "pyi")
  os.makedirs(src_dir)
  os.makedirs(pyi_dir)
  nl = "\r\n" if newline == "CRLF" else "\n"
  orig_bytes = py.replace("\n", nl).encode()
  pyi_bytes = pyi.replace("\n", nl).encode()
  py_path, pyi_path = os.path.join(src_dir, "mod.py"), os.path.join(pyi_dir, "mod.pyi")
  with open(py_path, "wb") as f:
    f.write(orig_bytes)
  with open(pyi_path, "wb") as f:
    f.write(pyi_bytes)
  with open(py_path) as f:
    py_read = f.read()
  with open(pyi_path) as f:
    pyi_read = f.read()
  try:
    ref = merge_pyi.merge_sources(py=py_read, pyi=pyi_read)
  except merge_pyi.MergeError:
    return []
  res = []
  changed = None
  try:
    if entry == "merge_files":
      changed = merge_pyi.merge_files(py_path=py_path, pyi_path=pyi_path, mode=merge_pyi.Mode.OVERWRITE, backup=backup)
    elif entry == "main":
      with contextlib.redirect_stdout(_io.StringIO()):
        merge_main.main(["merge-pyi", "-i"] + (["-b", backup] if backup else []) + [py_path, pyi_path])
    else:
      changed_files, errors = merge_pyi.merge_tree(py_path=src_dir, pyi_path=pyi_dir, backup=backup)
      if errors:
        return [Finding("file-entry-point-raised", "merge_tree: %r" % (errors[0][1],))]
      changed = bool(changed_files)
  except Exception as e:
    return [Finding("file-entry-point-raised", "%s: %r" % (entry, e))]
  with open(py_path, "rb") as f:
    new_bytes = f.read()
  expect_change = ref != py_read
  if changed is not None and bool(changed) != expect_change:
    res.append(Finding("file-changed-flag-wrong", "%s returned changed=%r, merge_sources %s the text" % (
        entry, changed, "changes" if expect_change else "does not change")))
  if not expect_change:
    if new_bytes != orig_bytes:
      res.append(Finding("file-unchanged-but-rewritten", "nothing to merge, but the file bytes differ"))
  else:
    try:
      new_text = new_bytes.decode().replace("\r\n", "\n")
    except UnicodeDecodeError:
      new_text = None
    if new_text != ref:
      what = "the file written by %s differs from merge_sources' output" % entry
      if new_text is not None and new_text.startswith(ref):
        what += ": %d stale bytes follow the merged text" % (len(new_text) - len(ref))
      res.append(Finding("file-output-differs-from-merge_sources", what))
      # the direct oracle on the file itself
      try:
        compile(new_bytes, "<file>", "exec", dont_inherit=True)
        fs = {f.kind for f in oracle(py_read, pyi_read, new_bytes.decode())} - {f.kind for f in oracle(py_read, pyi_read, ref)}
        for k in sorted(fs):
          res.append(Finding("file-" + k, "the written file violates the property where merge_sources' output does not"))
      except (SyntaxError, ValueError, UnicodeDecodeError) as e:
        res.append(Finding("file-output-does-not-compile", str(e)[:200]))
  others = sorted(os.listdir(src_dir))
  want = ["mod.py"] + (["mod.py." + backup] if backup and expect_change else [])
  if others != sorted(want):
    res.append(Finding("file-backup-wrong", "directory holds %s, expected %s" % (others, sorted(want))))
  elif backup and expect_change:
    with open(py_path + "." + backup, "rb") as f:
      if f.read() != orig_bytes:
        res.append(Finding("file-backup-wrong", "the backup is not the original file byte for byte"))
  with open(pyi_path, "rb") as f:
    if f.read() != pyi_bytes:
      res.append(Finding("file-stub-modified", "the stub file was modified"))
  shutil.rmtree(workdir, ignore_errors=True)
  return res


TREE_FIXED = [
    ("import os\ndef price(x):\n  return x\n", "from fractions import Fraction\ndef price(x: int) -> Fraction: ...\n"),
    ("def count(n):\n  return n\n", "def count(n: int) -> int: ...\n"),
    ("v = f()\ndef amount(a, b=1):\n  return a\n", "from decimal import Decimal\nv: Decimal\ndef amount(a: Decimal, b: int = ...) -> Decimal: ...\n"),
    ("class K:\n  def m(self, q):\n    return q\n", "from typing import Sequence\nclass K:\n  def m(self, q: Sequence[int]) -> Sequence[int]: ...\n"),
]


def tree_case(pairs, order, backup, workdir):
  """merge_tree over SEVERAL files (a package dir and a sub-package): every file must end up exactly as merge_sources
  turns it on its own - one file's stub must not influence another file (metamorphic: tree merge = per-file merges).
  `order` permutes which pair gets which file name (directory listing order decides who is merged first)."""
  import shutil
  from pytype.tools.merge_pyi import merge_pyi
  shutil.rmtree(workdir, ignore_errors=True)
  src_dir, pyi_dir = os.path.join(workdir, "src"), os.path.join(workdir, "pyi")
  names = ["a.py", "b.py", os.path.join("sub", "c.py"), os.path.join("sub", "d.py"), "e.py", os.path.join("sub", "f.py")]
  res = []
  refs = {}
  for k, j in enumerate(order):
    py, pyi = pairs[j]
    rel = names[k]
    for base, text, ext in ((src_dir, py, ""), (pyi_dir, pyi, "i")):
      path = os.path.join(base, rel + ext)
      os.makedirs(os.path.dirname(path), exist_ok=True)
      with open(path, "w") as f:
        f.write(text)
    if os.sep in rel:
      # decoy: a same-named stub of ANOTHER module one directory above the stub root (must never be read)
      with open(os.path.join(workdir, os.path.basename(rel) + "i"), "w") as f:
        f.write(pairs[order[(k + 1) % len(order)]][1])
    try:
      refs[rel] = (py, merge_pyi.merge_sources(py=py, pyi=pyi))
    except merge_pyi.MergeError:
      refs[rel] = (py, None)
  try:
    changed_files, errors = merge_pyi.merge_tree(py_path=src_dir, pyi_path=pyi_dir, backup=backup)
  except Exception as e:  # pylint: disable=broad-except
    return [Finding("file-entry-point-raised", "merge_tree over %d files: %r" % (len(order), e))]
  err_paths = {os.path.relpath(p, src_dir) for p, _ in errors}
  for rel, (py, ref) in refs.items():
    with open(os.path.join(src_dir, rel)) as f:
      got = f.read()
    if ref is None:
      if got != py:
        res.append(Finding("tree-file-differs-from-merge_sources", "%s: merge_sources raises MergeError but merge_tree rewrote the file" % rel))
      continue
    if rel in err_paths:
      res.append(Finding("tree-file-differs-from-merge_sources", "%s: merge_tree reports an error where merge_sources succeeds" % rel))
    elif got != ref:
      # Not by itself a violation of C20 (a tree merge that skips a file still changes annotations only): it is the
      # correspondence "merge_tree = per-file merge_sources" that no longer holds.  It is a violation when the
      # written file breaks a clause of the property with respect to ITS OWN stub where merge_sources' output does not.
      extra = [l for l in got.split("\n") if l not in ref.split("\n")]
      res.append(Finding("tree-file-differs-from-merge_sources",
                         "%s merged inside a tree of %d files differs from merge_sources on that file alone (%s); lines only in "
                         "the tree result: %r" % (rel, len(order), "file left untouched" if got == py else "different merge", extra[:4])))
      try:
        compile(got, rel, "exec", dont_inherit=True)
        pyi_text = open(os.path.join(pyi_dir, rel + "i")).read()
        foreign = cx.foreign_imports(py, pyi_text, got)
        if foreign and not cx.foreign_imports(py, pyi_text, ref):
          res.append(Finding("tree-import-not-from-own-stub", "%s: merged inside a tree of %d files it gained imports its own stub "
                             "never mentions: %s" % (rel, len(order), foreign)))
        fs = {f.kind for f in oracle(py, pyi_text, got)} - {f.kind for f in oracle(py, pyi_text, ref)}
        for kk in sorted(fs):
          res.append(Finding("tree-" + kk, "%s: the file written by merge_tree (a tree of %d files) violates the property with "
                             "respect to its own stub where merge_sources' output does not; lines only in the tree result: %r"
                             % (rel, len(order), extra[:4])))
      except (SyntaxError, ValueError) as e:
        res.append(Finding("file-output-does-not-compile", "%s: %s" % (rel, str(e)[:200])))
  shutil.rmtree(workdir, ignore_errors=True)
  return res


def _tree_work(job):
  pairs, order, backup = job
  workdir = os.path.join(common.BUILD, "c20", "trees", "%d" % os.getpid())
  try:
    fs = tree_case(pairs, order, backup, workdir)
  except Exception as e:  # pylint: disable=broad-except
    fs = [Finding("file-leg-crashed", repr(e))]
  return job, fs


def _file_work(job):
  py, pyi, newline, backup, entry = job
  workdir = os.path.join(common.BUILD, "c20", "files", "%d" % os.getpid())
  try:
    fs = file_case(py, pyi, newline, backup, entry, workdir)
  except Exception as e:
    fs = [Finding("file-leg-crashed", repr(e))]
  return job, fs


def shrink(py, pyi, fp, variant_bits, budget_s=20.0):
  """Greedy line removal on both texts while the oracle still reports the same finding kind."""
  deadline = time.time() + budget_s
  def bad(p, s):
    try:
      compile(p, "<p>", "exec", dont_inherit=True)
      ast.parse(s)
    except SyntaxError:
      return False
    out, err = impl_merge(p, s)
    if out is None:
      return False
    try:
      return any(f.kind == fp for f in oracle(p, s, out))
    except Exception:
      return False
  cur = [py, pyi]
  for which in (1, 0, 1, 0):
    lines = cur[which].split("\n")
    i = len(lines) - 1
    while i >= 0 and time.time() < deadline:
      cand = lines[:i] + lines[i + 1:]
      trial = list(cur)
      trial[which] = "\n".join(cand)
      if bad(*trial):
        lines = cand
        cur = trial
      i -= 1
  return cur[0], cur[1]


def run(res):
  thorough = res.tier == "thorough"
  res.rule = ("random programs (nested functions, methods, decorators, async, defaults, positional-only/star/"
              "keyword-only/** parameters, class and module variables, chained/tuple/attribute/subscript targets, "
              "re-assignment, if/try/for/with/while blocks, nested classes, TypeVars, docstring, top and late "
              "`from typing import`, existing partial annotations) x three generated stubs for the same "
              "definitions (full / sparse / adversarial: conflicting annotations, renamed positionals, changed "
              "signature shapes, duplicate defs, shuffled order, dotted and quoted annotations)"
              + ("; thorough adds the stub pytype infers (io.generate_pyi)" if thorough else "") +
              ". A case is non-trivial when the merge changed the source; distinct by (program, stub) text. "
              "File-level leg: corpus + a long file + sampled generated inputs written LF / CRLF into a scratch "
              "directory and merged in place by merge_files, main -i and merge_tree, with and without backup; the "
              "file must equal merge_sources' output, the backup the original bytes. File-level correspondence: generated "
              "directory trees (depth <= 4, names with dots and spaces, stubs present / missing / extra / decoys at other levels, "
              "stub root beside / inside / around / equal to the source root, undecodable and CRLF / CR files, a directory named "
              "like a stub, backup None / '' / bak / py / pyi with collisions, argument spellings ./x, x/, x//, y/../x, ../cwd/x, "
              "absolute, '.', '') run through the real merge_tree / merge_files / main in a scratch directory and through the "
              "model coq/Merge/Files.v (both the pre- and post-b7143da relpath); generated path strings through "
              "join / normpath / relpath / abspath. A tree case is non-trivial when a file changed or the two variants differ.")
  res.assumptions = [
      "libcst 1.4.0 is modelled (TypeCollector, ApplyTypeAnnotationsVisitor, AddImportsVisitor), not verified: bound to the "
      "model only by this correspondence",
      "domain of the model: one statement per line, imports only as `from M import names` without aliases, "
      "canonically formatted annotations (ast.unparse fixpoint), stub AnnAssign targets with a full name; inputs "
      "outside are skipped and counted (not_explorable)",
      "formatting/whitespace/comments are outside the mini tree (covered by the ast-level oracle only)",
      "projection + generators + oracle in harness/props/c20*.py"]
  common.coq_obligations(res, PID)
  common.bootstrap_pytype()
  res.trusted_base += ["harness/props/c20_proj.py (ast -> mini tree, serialiser mirrored in Model.ser_item)",
                       "CPython ast/compile as the notion of 'same syntax tree' and 'compiles'"]
  r = common.rng(res.seed, "c20")
  inputs = corpus_cases() + generated_cases(r, 700 if thorough else 60, thorough)
  t_impl = time.time()
  recs = []           # dict per explorable case
  skipped = {}
  skipped_recs = []   # outside the model's domain: no correspondence, but the oracle still applies
  n_inferred = 0
  import multiprocessing
  from pytype.tools.merge_pyi import merge_pyi  # noqa: F401  (imported before forking)
  # file-level leg: corpus + the long file + a few generated programs, LF and CRLF, with and without
  # backup, through merge_files, main -i and merge_tree
  fr = common.rng(res.seed, "c20-files")
  base = [(py, pyi) for _, py, pyi in inputs[:len(corpus_cases())]] + [long_case()]
  gen_inputs = [(py, pyi) for n, py, pyi in inputs[len(corpus_cases()):] if pyi is not None]
  base += fr.sample(gen_inputs, min(len(gen_inputs), 40 if thorough else 6))
  file_jobs = []
  for k, (py, pyi) in enumerate(base):
    combos = [(nl, bk, en) for nl in ("LF", "CRLF") for bk in (None, "bak") for en in FILE_ENTRIES]
    if not thorough:      # quick: every input under CRLF/merge_files, plus two more random combinations
      combos = [("CRLF", None, "merge_files")] + fr.sample(combos, 2)
    file_jobs += [(py, pyi, nl, bk, en) for nl, bk, en in combos]
  # multi-file trees: the fixed pairs (stubs importing names their source lacks) mixed with generated pairs, every
  # rotation of the file-name assignment (directory listing order decides which file is merged first)
  tree_jobs = []
  for t in range(12 if thorough else 3):
    pairs = list(TREE_FIXED) + fr.sample(gen_inputs, min(len(gen_inputs), 2))
    fr.shuffle(pairs)
    pairs = pairs[:fr.randint(3, 6)]
    idx = list(range(len(pairs)))
    for rot in range(len(idx) if thorough else 2):
      order = idx[rot:] + idx[:rot]
      if rot % 2:
        order = order[::-1]
      tree_jobs.append((pairs, order, None if (t + rot) % 2 else "bak"))
  with multiprocessing.get_context("fork").Pool(4) as pool:
    done = pool.map(_work, inputs, chunksize=8)
    file_done = pool.map(_file_work, file_jobs, chunksize=4)
    tree_done = pool.map(_tree_work, tree_jobs, chunksize=1)
    # file-level correspondence: the model of merge_tree / merge_files / the path functions (coq/Merge/Files.v) against the
    # real code in real scratch directories; decides whether the tree follows merge_tree before or after b7143da
    ff.run_leg(res, list(TREE_FIXED) + base[:len(corpus_cases())] + gen_inputs, pool, thorough, oracle)
    # process level (coq/Merge/Ctx.v): histories of merge_files / merge_tree / main calls and outside writes in one process
    cx.run_history_leg(res, common.rng(res.seed, "c20-hist"), gen_inputs, pool, thorough, oracle)
  for d in done:
    if d.get("inferred"):
      n_inferred += 1
    if "skip" in d:
      skipped[d["skip"]] = skipped.get(d["skip"], 0) + 1
      if d.get("nocompile"):
        res.violation("output-does-not-compile", "merge_sources output does not compile: %s" % d["nocompile"],
                      {"py": d["py"], "pyi": d["pyi"]})
      skipped_recs.append(d)
      continue
    recs.append(d)
  res.extra["impl_seconds"] = round(time.time() - t_impl, 1)
  t_model = time.time()
  raw, logs = run_model([c["coq"] for c in recs], "q" if not thorough else "t")
  # bit 1: as-written model = implementation, bit 2: fixed model = implementation (the monitors of the
  # variant the tree follows are added once that variant is known)
  bits = [None if x is None else
          (1 if x[0] == hash_tokens(c["tokens"]) else 0) + (2 if x[1] == hash_tokens(c["tokens"]) else 0)
          for c, x in zip(recs, raw)]
  res.extra["model_seconds"] = round(time.time() - t_model, 1)
  if logs:
    res.obligation("model-run", False, "\n".join(logs)[:3000])
  ok_cases = [(c, b) for c, b in zip(recs, bits) if b is not None]
  n_aw = sum(1 for _, b in ok_cases if b & 1)
  n_fx = sum(1 for _, b in ok_cases if b & 2)
  n_diff = sum(1 for _, b in ok_cases if (b & 1) != ((b & 2) >> 1))
  if ok_cases and n_aw == len(ok_cases) and n_diff:
    variant = "as-written"
  elif ok_cases and n_fx == len(ok_cases) and n_diff:
    variant = "fixed"
  else:
    variant = "as-written" if n_aw >= n_fx else "fixed"
  vbit = 1 if variant == "as-written" else 2
  # process level: trees whose stubs need different imports, against the model with a context per file / one per tree
  clean = [(d["py"], d["pyi"]) for d in done if "skip" not in d and d.get("out") is not None and d["out"] != d["py"]
           and not d.get("findings") and len(d["py"]) + len(d["pyi"]) < 500]
  cr = common.rng(res.seed, "c20-ctx")
  cx.run_context_leg(res, cr, cr.sample(clean, min(len(clean), 4)), thorough, oracle, variant)
  res.extra["variant_followed"] = variant
  res.extra["applicable_no_bare_theorems"] = (
      ["no_bare_any_never_refuted", "no_bare_any_never_partial"] if variant == "as-written" else
      ["no_bare_any_never_partial", "no_bare_any_never_fixed_vars", "no_bare_any_never_fixed_decls"])
  res.obligation("correspondence:variants-distinguished", n_diff > 0,
                 "%d cases tell the as-written and the fixed leave_AnnAssign apart" % n_diff)
  mism = [(c, b) for c, b in ok_cases if not b & vbit]
  bits = [None if b is None else b + x[2 if variant == "as-written" else 3] for b, x in zip(bits, raw)]
  # oracle on every case; model monitors choose the fingerprint only
  hist = {"changed": 0, "unchanged": 0, "merge-error": 0}
  mon = {"leak": 0, "clsdecl": 0, "non-typing-import": 0, "fresh-class": 0, "generic-base": 0}
  reported = {}
  n_viol_cases = 0
  for c, b in list(zip(recs, bits)) + [(c, 0) for c in skipped_recs if c.get("out") is not None]:
    b = b or 0
    for k, w in (("leak", 4), ("clsdecl", 8), ("non-typing-import", 16), ("fresh-class", 32), ("generic-base", 64)):
      if b & w:
        mon[k] += 1
    if c["out"] is None:
      hist["merge-error"] += 1
      res.count(None)
      continue
    changed = c["out"] != c["py"]
    hist["changed" if changed else "unchanged"] += 1
    res.count((c["py"], c["pyi"]) if changed else None)
    if changed and len(res.samples) < 3 and len(c["py"]) < 200:
      res.sample({"py": c["py"], "pyi": c["pyi"], "merged": c["out"]})
    fs = c.get("findings", [])
    if fs:
      n_viol_cases += 1
    for f in fs:
      fp = fingerprint(f, variant, b)
      reported.setdefault(fp, []).append((c, f))
  file_hist = {}
  for (py, pyi, nl, bk, en), fs in file_done:
    res.count(("file", py, pyi, nl, bk, en))
    file_hist[nl + ("+backup" if bk else "") + ":" + en] = file_hist.get(nl + ("+backup" if bk else "") + ":" + en, 0) + 1
    for f in fs:
      reported.setdefault(f.kind, []).append(({"py": py, "pyi": pyi, "name": "file:%s:%s:%s" % (nl, bk, en),
                                               "file": {"newline": nl, "backup": bk, "entry": en}}, f))
  tree_diff = []
  for (pairs, order, bk), fs in tree_done:
    res.count(("tree", tuple(pairs), tuple(order), bk))
    for f in fs:
      if f.kind == "tree-file-differs-from-merge_sources":
        tree_diff.append(f.what)
        continue
      reported.setdefault(f.kind, []).append(({"py": "\n# ---- next file ----\n".join(pairs[j][0] for j in order),
                                               "pyi": "\n# ---- next file ----\n".join(pairs[j][1] for j in order),
                                               "name": "tree:%d files" % len(order),
                                               "tree": {"pairs": [list(x) for x in pairs], "order": order, "backup": bk}}, f))
  res.extra["file_leg"] = {"runs": len(file_done), "combinations": file_hist, "multi_file_trees": len(tree_done)}
  res.obligation("correspondence:merge_tree = per-file merge_sources (multi-file trees with sub-packages)", not tree_diff,
                 "%d files differ; first: %s" % (len(tree_diff), tree_diff[0] if tree_diff else ""))
  res.extra["oracle_finding_cases"] = {k: len(v) for k, v in reported.items()}
  # every finding must be explained by a failed hypothesis of the partial theorems: the leak / hoisting
  # fingerprints are only given when the model's monitor fired; a dotted-annotation finding needs a
  # dotted annotation in the stub
  unexplained = [c["name"] for c, f in reported.get("dotted-annotation-bogus-import", []) if not _stub_has_dotted(c["pyi"])]
  res.obligation("oracle-vs-hypotheses", not unexplained,
                 "dotted-annotation findings on stubs without a dotted annotation: %s" % unexplained[:5])
  for fp, lst in sorted(reported.items()):
    lst.sort(key=lambda cf: len(cf[0]["py"]) + len(cf[0]["pyi"]))
    c, f = lst[0]
    if fp in res.known:
      res.violation(fp, f.what, {"py": c["py"], "pyi": c["pyi"]})
      continue
    if len(res.violations) >= 3:
      continue
    if "file" in c:
      res.violation(fp, "%s [%s, %s]" % (f.what, c["name"], f.kind),
                    {"py": c["py"], "pyi": c["pyi"], "file": c["file"], "kind": f.kind})
      continue
    py, pyi = shrink(c["py"], c["pyi"], f.kind, 0)
    res.violation(fp, "%s [%s]" % (f.what, f.kind), {"py": py, "pyi": pyi, "case": c["name"], "kind": f.kind})
  # a model/implementation disagreement whose input also violates the property was reported above;
  # the obligation fails either way
  for c, b in mism[:3]:
    toks = model_tokens(c["coq"], variant)
    res.obligation("correspondence:" + c["name"], False,
                   "model (%s) and merge_sources differ.\npy:\n%s\npyi:\n%s\nimpl:\n%s\nmodel tokens: %s\nimpl tokens: %s" % (
                       variant, c["py"], c["pyi"], c["out"] if c["out"] is not None else "MergeError: " + str(c["err"]),
                       toks, c["tokens"]))
  res.obligation("correspondence:model-vs-merge_sources", not mism and bool(ok_cases),
                 "%d of %d cases disagree with the %s model" % (len(mism), len(ok_cases), variant))
  n_skip = sum(skipped.values())
  res.obligation("domain:explorable-fraction", n_skip <= 0.25 * max(1, len(inputs)),
                 "%d of %d inputs outside the modelled domain: %s" % (n_skip, len(inputs), skipped))
  # the proofs' hypotheses must explain every oracle finding: a finding on an input where all monitors
  # are clear and no dotted annotation / Any variable is involved has an unlisted fingerprint (above)
  res.extra.update({"cases": len(recs), "not_explorable": skipped, "outcome_histogram": hist,
                    "model_monitors": mon, "inferred_stubs": n_inferred,
                    "cases_as_written_ok": n_aw, "cases_fixed_ok": n_fx, "cases_distinguishing": n_diff,
                    "cases_with_oracle_findings": n_viol_cases})
  if thorough:
    ok, out = common_coqchk(PID)
    res.obligation("coqchk", ok, out[-1500:])
  return "proof"


def common_coqchk(pid):
  r = subprocess.run(["timeout", "1500", "coqchk", "-silent", "-o", "-Q", common.COQ, "PV", f"PV.Props.{pid}"],
                     capture_output=True, text=True, cwd=common.COQ)
  return r.returncode == 0, r.stdout + r.stderr


def replay(res, path):
  common.bootstrap_pytype()
  d = json.load(open(path))["replay"]
  if "ftree" in d:
    return ff.replay_ftree(d, oracle)
  if "ctxseq" in d:
    return cx.replay_ctxseq(d, oracle)
  if "history" in d:
    return cx.replay_history(d, oracle)
  if "file" in d:
    fm = d["file"]
    fs = file_case(d["py"], d["pyi"], fm["newline"], fm["backup"], fm["entry"],
                   os.path.join(common.BUILD, "c20", "files", "replay"))
    print("---- py (%s)\n%s---- pyi\n%s---- entry %s, backup %r" % (fm["newline"], d["py"], d["pyi"], fm["entry"], fm["backup"]))
    for f in fs:
      print("FINDING", f)
    return 1 if fs else 0
  out, err = impl_merge(d["py"], d["pyi"])
  print("---- py\n" + d["py"] + "---- pyi\n" + d["pyi"])
  if out is None:
    print("---- MergeError:", err)
    return 0
  print("---- merged\n" + out)
  fs = oracle(d["py"], d["pyi"], out)
  for f in fs:
    print("FINDING", f, "| cause:", f.cause, "| fingerprint:", fingerprint(f, "fixed", 0))
  return 1 if fs else 0
