"""Fail-closed translator: /repo/pytype/pyc/opcodes.py  ->  coq/Generated/C16_OpcodeFlags.v.

Reads the *source* (ast) of opcodes.py: the flag constants, every Opcode subclass with its `_FLAGS`
expression, and the classmethod predicates of `Opcode` (no_next, does_jump, ...).  Anything whose shape
is not one of the few recognised ones raises TranslateError (the check then fails closed).  The result is
cross-checked against the imported module (`cls.for_python_version((3, 12))._FLAGS`).
"""
import ast
import os

import common

FLAG_NAMES = ["HAS_CONST", "HAS_NAME", "HAS_JREL", "HAS_JABS", "HAS_JUNKNOWN", "HAS_LOCAL", "HAS_FREE",
              "HAS_NARGS", "HAS_ARGUMENT", "NO_NEXT", "STORE_JUMP", "PUSHES_BLOCK", "POPS_BLOCK"]

# predicates of class Opcode the model uses -> expected shape
MASK_PREDICATES = ["no_next", "store_jump", "pops_block", "pushes_block", "has_jump", "has_known_jump"]
# opcode classes blocks.py / opcodes.py test with isinstance(); the model compares the class id
SPECIAL = ["SEND", "GET_ANEXT", "JUMP_BACKWARD", "JUMP_BACKWARD_NO_INTERRUPT", "CLEANUP_THROW", "END_SEND",
           "END_ASYNC_FOR", "POP_BLOCK", "SETUP_EXCEPT_311",
           # blocks.add_pop_block_targets
           "RAISE_VARARGS", "BREAK_LOOP", "SETUP_FINALLY", "SETUP_LOOP"]

OUT = os.path.join(common.COQ, "Generated", "C16_OpcodeFlags.v")


class TranslateError(Exception):
  pass


def _eval_flags(node, consts):
  """_FLAGS expression: names of flag constants joined by `|`, or the literal 0."""
  if isinstance(node, ast.Name):
    if node.id not in consts:
      raise TranslateError(f"unknown flag name {node.id}")
    return consts[node.id]
  if isinstance(node, ast.Constant) and node.value == 0:
    return 0
  if isinstance(node, ast.BinOp) and isinstance(node.op, ast.BitOr):
    return _eval_flags(node.left, consts) | _eval_flags(node.right, consts)
  raise TranslateError("unsupported _FLAGS expression: " + ast.dump(node))


def _mask_of_predicate(fn, consts):
  """`return bool(cls._FLAGS & <mask expr>)` -> mask value."""
  body = [s for s in fn.body if not (isinstance(s, ast.Expr) and isinstance(s.value, ast.Constant))]
  if len(body) != 1 or not isinstance(body[0], ast.Return):
    raise TranslateError(f"predicate {fn.name}: unexpected body")
  v = body[0].value
  if not (isinstance(v, ast.Call) and isinstance(v.func, ast.Name) and v.func.id == "bool" and len(v.args) == 1
          and not v.keywords):
    raise TranslateError(f"predicate {fn.name}: not bool(...)")
  e = v.args[0]
  if not (isinstance(e, ast.BinOp) and isinstance(e.op, ast.BitAnd) and ast.dump(e.left) ==
          ast.dump(ast.parse("cls._FLAGS", mode="eval").body)):
    raise TranslateError(f"predicate {fn.name}: not cls._FLAGS & mask")
  return _eval_flags(e.right, consts)


def translate(repo=None):
  """Returns (coq_text, table) where table = {"classes": [(name, flags)], "masks": {...}, "special": {...}}."""
  repo = repo or common.REPO
  path = os.path.join(repo, "pytype", "pyc", "opcodes.py")
  tree = ast.parse(open(path).read())
  consts = {}
  classes = []          # (name, flags)
  bases = {}
  opcode_cls = None
  for st in tree.body:
    if isinstance(st, ast.Assign) and len(st.targets) == 1 and isinstance(st.targets[0], ast.Name) \
       and st.targets[0].id in FLAG_NAMES:
      if not (isinstance(st.value, ast.Constant) and isinstance(st.value.value, int)):
        raise TranslateError("flag constant is not an int literal: " + st.targets[0].id)
      if st.targets[0].id in consts:
        raise TranslateError("flag constant assigned twice: " + st.targets[0].id)
      consts[st.targets[0].id] = st.value.value
    elif isinstance(st, ast.ClassDef):
      bnames = [b.id if isinstance(b, ast.Name) else None for b in st.bases]
      if st.name == "Opcode":
        opcode_cls = st
        bases[st.name] = None
        continue
      if st.name == "OpcodeWithArg":
        if bnames != ["Opcode"]:
          raise TranslateError("OpcodeWithArg base changed")
        bases[st.name] = "Opcode"
        for s in st.body:
          if isinstance(s, ast.FunctionDef) and s.name in MASK_PREDICATES + ["does_jump", "for_python_version"]:
            raise TranslateError("OpcodeWithArg overrides " + s.name)
          if isinstance(s, ast.Assign) and any(isinstance(t, ast.Name) and t.id == "_FLAGS" for t in s.targets):
            raise TranslateError("OpcodeWithArg defines _FLAGS")
        continue
      if len(bnames) != 1 or bnames[0] not in bases:
        continue  # not an opcode class (e.g. OpcodeMetadata)
      if bnames[0] not in ("Opcode", "OpcodeWithArg"):
        raise TranslateError(f"class {st.name} derives from opcode class {bnames[0]} (isinstance tests would see it)")
      bases[st.name] = bnames[0]
      flags = 0
      nflags = 0
      for s in st.body:
        if isinstance(s, ast.Assign):
          names = [t.id for t in s.targets if isinstance(t, ast.Name)]
          if "_FLAGS" in names:
            flags = _eval_flags(s.value, consts)
            nflags += 1
          elif names != ["__slots__"]:
            raise TranslateError(f"class {st.name}: unexpected assignment {names}")
        elif isinstance(s, ast.FunctionDef):
          if s.name in MASK_PREDICATES + ["does_jump"]:
            raise TranslateError(f"class {st.name} overrides predicate {s.name}")
          if s.name == "for_python_version":
            # only the known shape: `if version <= (3, 11): class ...; return X` then `return cls`
            _check_version_switch(st.name, s)
        elif isinstance(s, ast.Expr) and isinstance(s.value, ast.Constant):
          pass
        elif isinstance(s, (ast.Pass,)):
          pass
        else:
          raise TranslateError(f"class {st.name}: unexpected statement {type(s).__name__}")
      if nflags > 1:
        raise TranslateError(f"class {st.name}: _FLAGS assigned twice")
      classes.append((st.name, flags))
  # _IGNORED_EXCEPTION_TARGETS = (END_ASYNC_FOR, CLEANUP_THROW, SWAP): a tuple of opcode class names
  ignored = None
  for st in tree.body:
    if isinstance(st, ast.Assign) and len(st.targets) == 1 and isinstance(st.targets[0], ast.Name) \
       and st.targets[0].id == "_IGNORED_EXCEPTION_TARGETS":
      if ignored is not None or not isinstance(st.value, ast.Tuple) or \
         not all(isinstance(e, ast.Name) for e in st.value.elts):
        raise TranslateError("_IGNORED_EXCEPTION_TARGETS is not a single tuple of class names")
      ignored = [e.id for e in st.value.elts]
  if ignored is None:
    raise TranslateError("_IGNORED_EXCEPTION_TARGETS not found")
  if set(consts) != set(FLAG_NAMES):
    raise TranslateError("flag constants missing: %s" % sorted(set(FLAG_NAMES) - set(consts)))
  if opcode_cls is None:
    raise TranslateError("class Opcode not found")
  # predicates of Opcode
  masks = {}
  does_jump_ok = False
  base_flags = None
  for s in opcode_cls.body:
    if isinstance(s, ast.Assign) and any(isinstance(t, ast.Name) and t.id == "_FLAGS" for t in s.targets):
      base_flags = _eval_flags(s.value, consts)
    if isinstance(s, ast.FunctionDef) and s.name in MASK_PREDICATES:
      if [ast.dump(d) for d in s.decorator_list] != [ast.dump(ast.Name("classmethod", ast.Load()))]:
        raise TranslateError(f"Opcode.{s.name}: not a plain classmethod")
      masks[s.name] = _mask_of_predicate(s, consts)
    if isinstance(s, ast.FunctionDef) and s.name == "does_jump":
      want = ast.dump(ast.parse("def does_jump(cls):\n  return cls.has_jump() and not cls.store_jump()").body[0].body[0])
      body = [b for b in s.body if not (isinstance(b, ast.Expr) and isinstance(b.value, ast.Constant))]
      if len(body) != 1 or ast.dump(body[0]) != want:
        raise TranslateError("Opcode.does_jump is no longer `has_jump() and not store_jump()`")
      does_jump_ok = True
    if isinstance(s, ast.FunctionDef) and s.name in ("__eq__", "__hash__", "__bool__", "__len__"):
      raise TranslateError(f"Opcode defines {s.name}: identity/truthiness assumptions of the model no longer hold")
  if base_flags != 0:
    raise TranslateError("Opcode._FLAGS is not 0")
  if set(masks) != set(MASK_PREDICATES) or not does_jump_ok:
    raise TranslateError("Opcode predicates missing: %s" % sorted(set(MASK_PREDICATES) - set(masks)))
  names = [c[0] for c in classes]
  if len(set(names)) != len(names):
    raise TranslateError("duplicate opcode class names")
  for sp in SPECIAL:
    if sp not in names:
      raise TranslateError("special opcode class missing: " + sp)
  ids = {n: i for i, n in enumerate(names)}
  lines = ["(* GENERATED on every run by harness/props/c16_flags.py from pytype/pyc/opcodes.py - do not edit. *)",
           "From Coq Require Import NArith List.", "Import ListNotations.", "Local Open Scope N_scope.", ""]
  lines.append(f"Definition opcode_count : N := {len(classes)}.")
  lines.append("(* class id -> _FLAGS, in source order:")
  for n, f in classes:
    lines.append(f"   {ids[n]} {n} {f}")
  lines.append("*)")
  lines.append("Definition flags_of (c : N) : N :=\n  match c with")
  for n, f in classes:
    if f:
      lines.append(f"  | {ids[n]} => {f}")
  lines.append("  | _ => 0\n  end.")
  for p in MASK_PREDICATES:
    lines.append(f"Definition m_{p} : N := {masks[p]}.")
  # a name for every class id (the ones in SPECIAL are what blocks.py / opcodes.py test with isinstance)
  for n, _ in classes:
    lines.append(f"Definition op_{n} : N := {ids[n]}.")
  for n in ignored:
    if n not in ids:
      raise TranslateError("_IGNORED_EXCEPTION_TARGETS names an unknown class " + n)
  lines.append("Definition ignored_exception_targets : list N := [" + "; ".join("op_" + n for n in ignored) + "].")
  lines.append("")
  table = {"classes": classes, "masks": masks, "special": {sp: ids[sp] for sp in SPECIAL}, "ids": ids,
           "ignored_exception_targets": ignored}
  return "\n".join(lines), table


def _check_version_switch(cname, fn):
  want_tail = ast.dump(ast.parse("return cls").body[0])
  body = [b for b in fn.body if not (isinstance(b, ast.Expr) and isinstance(b.value, ast.Constant))]
  if len(body) != 2 or ast.dump(body[1]) != want_tail or not isinstance(body[0], ast.If):
    raise TranslateError(f"class {cname}: unrecognised for_python_version")
  test = body[0].test
  want_test = ast.dump(ast.parse("version <= (3, 11)", mode="eval").body)
  if ast.dump(test) != want_test or body[0].orelse:
    raise TranslateError(f"class {cname}: for_python_version no longer switches at <= (3, 11)")


def cross_check(table):
  """Compare the source-derived table with the imported module for 3.12 (needs pytype importable)."""
  from pytype.pyc import opcodes  # pylint: disable=import-outside-toplevel
  bad = []
  seen = set()
  for name, flags in table["classes"]:
    cls = getattr(opcodes, name, None)
    if cls is None or not isinstance(cls, type) or not issubclass(cls, opcodes.Opcode):
      bad.append(f"{name}: not an Opcode class in the imported module")
      continue
    c312 = cls.for_python_version((3, 12))
    if c312 is not cls:
      bad.append(f"{name}: for_python_version((3,12)) is a different class")
    if c312._FLAGS != flags:  # pylint: disable=protected-access
      bad.append(f"{name}: imported _FLAGS {c312._FLAGS} != source {flags}")  # pylint: disable=protected-access
    seen.add(name)
    m = table["masks"]
    for pred, val in (("no_next", bool(flags & m["no_next"])), ("pops_block", bool(flags & m["pops_block"])),
                      ("has_known_jump", bool(flags & m["has_known_jump"])),
                      ("does_jump", bool(flags & m["has_jump"]) and not flags & m["store_jump"])):
      if getattr(c312, pred)() != val:
        bad.append(f"{name}.{pred}() differs from the translated predicate")
  for name, obj in vars(opcodes).items():
    if isinstance(obj, type) and issubclass(obj, opcodes.Opcode) and obj not in (opcodes.Opcode, opcodes.OpcodeWithArg) \
       and name not in seen:
      bad.append(f"{name}: Opcode subclass in the module but not translated")
  for sp in table["special"]:
    cls = getattr(opcodes, sp)
    subs = [c.__name__ for c in cls.__subclasses__()]
    if subs:
      bad.append(f"{sp} has subclasses {subs}")
  return bad


def regenerate(repo=None):
  text, table = translate(repo)
  common.write_if_changed(OUT, text)
  return table
