"""C17 -- boolean-equation terms are built and simplified to logically equivalent terms.

Proof: coq/Props/C17.v (and_equiv, or_equiv, eq_equiv, eq_shape, absorption, constructor_shape, and/or_normal,
built_normal, simplify_equiv/_total/_keyerror/_normal/_oriented/_pruned) over the model coq/Booleq/Model.v.
Tie: the real pytype.pytd.booleq (Eq/And/Or/.simplify) and the model run the same constructor calls and the
same (term, table) pairs; the model is handed every real set in the order the real object iterates it and
its result is compared with the real result as nested sets (cases.v + vm_compute, Model.res_same).
Oracle: brute-force truth tables on the real terms (independent of the model) + a structural normal-form check.
Consumer (c17_solver.py; model coq/Booleq/Solver.v; theorems pivots_sound_partial/_refuted, equalities_spec,
solve_never_out_of_fuel, round_shrinks, solve_fixed_point, complete_extends, round_preserves_solutions,
solve_sound_partial/_refuted, solve_complete_refuted): the real Solver (register_variable/always_true/implies/
_get_first_approximation/solve) and extract_pivots/extract_equalities against the model on generated scripts, with the
real set-iteration order handed to the model, plus brute-force oracles (all assignments over the candidate values:
every value of every solution must survive in solve(); declarative first approximation; fixed point; solve twice).
"""
import ast
import hashlib
import itertools
import json
import os
import re
import subprocess
import time

import common

VARS = ["~a", "~b", "~c"]
VALS = ["x", "y", "z"]
FRESH = "w"                       # a value no table offers; assignments range over VALS + [FRESH]
NAMES = VARS + VALS
SIGMA_VALS = VALS + [FRESH]
# names for the edge stream: empty, bare "~", values above "~" (DEL, non-ASCII), prefixes, case
EDGE_NAMES = ["", "~", "~~", "~a", "~ab", "a", "ab", "A", "}", "\x7f", "é", "~é", "a~", "~A", "\U0001f600"]

# digest of the modelled source the model was last validated against (drift sentinel: a different digest is
# never a verdict, it only escalates a quick run to a deeper enumeration)
VALIDATED_DIGEST = "e3ebbcc9aaac18f1"


# --------------------------------------------------------------------------------------------
# real terms: inspection, canonical form, evaluation

def booleq():
  common.bootstrap_pytype()      # booleq imports pytd_utils -> printer -> ... -> typegraph.cfg (cached build)
  from pytype.pytd import booleq as b  # pylint: disable=import-outside-toplevel
  return b


def kind_of(b, t):
  if t is b.TRUE:
    return "T"
  if t is b.FALSE:
    return "F"
  n = type(t).__name__
  if n == "_Eq":
    return "E"
  if n == "_And":
    return "A"
  if n == "_Or":
    return "O"
  raise TypeError("not a booleq term: %r" % (t,))


def canon(b, t):
  """Canonical nested tuple: children sorted, so equal-as-sets terms get equal canon."""
  k = kind_of(b, t)
  if k in "TF":
    return (k,)
  if k == "E":
    return ("E", t.left, t.right)
  return (k,) + tuple(sorted(canon(b, e) for e in t.exprs))


def show(c):
  if c is None:
    return "KeyError"
  if c[0] == "T":
    return "TRUE"
  if c[0] == "F":
    return "FALSE"
  if c[0] == "E":
    return "Eq(%r,%r)" % (c[1], c[2])
  return ("And" if c[0] == "A" else "Or") + "{" + ", ".join(show(x) for x in c[1:]) + "}"


def is_var(n):
  return n.startswith("~")


def ev(b, t, sigma):
  """Truth value of a real term under sigma (dict var -> value); names not starting with ~ denote themselves."""
  k = kind_of(b, t)
  if k == "T":
    return True
  if k == "F":
    return False
  if k == "E":
    l = sigma[t.left] if is_var(t.left) else t.left
    r = sigma[t.right] if is_var(t.right) else t.right
    return l == r
  if k == "A":
    return all(ev(b, e, sigma) for e in t.exprs)
  return any(ev(b, e, sigma) for e in t.exprs)


def term_vars(b, t, acc=None):
  acc = set() if acc is None else acc
  k = kind_of(b, t)
  if k == "E":
    for n in (t.left, t.right):
      if is_var(n):
        acc.add(n)
  elif k in "AO":
    for e in t.exprs:
      term_vars(b, e, acc)
  return acc


def term_names(b, t, acc=None):
  acc = set() if acc is None else acc
  k = kind_of(b, t)
  if k == "E":
    acc.add(t.left); acc.add(t.right)
  elif k in "AO":
    for e in t.exprs:
      term_names(b, e, acc)
  return acc


def normal_violation(b, t):
  """None if t is in the normal form the property states (TRUE/FALSE absorbed, same-kind nesting flattened,
  >= 2 children, _Eq oriented left > right), else a short reason."""
  k = kind_of(b, t)
  if k == "E":
    return None if t.left > t.right else "eq-not-oriented"
  if k in "AO":
    if not isinstance(t.exprs, (set, frozenset)):
      return "children-not-a-set"
    if len(t.exprs) < 2:
      return "fewer-than-2-children"
    cs = [canon(b, e) for e in t.exprs]
    if len(set(cs)) != len(cs):
      return "duplicate-children"
    for e in t.exprs:
      ke = kind_of(b, e)
      if ke in "TF":
        return "constant-child"
      if ke == k:
        return "same-kind-child"
      r = normal_violation(b, e)
      if r:
        return r
  return None


# 64 assignments over the standard universe, as bit positions
SIGMAS = [dict(zip(VARS, vs)) for vs in itertools.product(SIGMA_VALS, repeat=len(VARS))]


class Pool:
  """Interns real term objects by their ordered rendering; gives each a Coq name and cached data."""

  def __init__(self, b, names):
    self.b = b
    self.names = {n: "n%d" % i for i, n in enumerate(names)}
    self.by_key = {}
    self.defs = []        # index -> coq definition body
    self.deps = []        # index -> list of indices
    self.obj = []         # index -> real object
    self.canon = []
    self.recipe = []      # index -> how it was first built (JSON-able)
    self._tt = {}

  def name_ref(self, n):
    if n not in self.names:
      self.names[n] = "n%d" % len(self.names)
    return self.names[n]

  def intern(self, t, recipe=None):
    b = self.b
    k = kind_of(b, t)
    if k == "T":
      key = "T"
    elif k == "F":
      key = "F"
    elif k == "E":
      key = "(TEq %s %s)" % (self.name_ref(t.left), self.name_ref(t.right))
    else:
      kids = [self.intern(e) for e in t.exprs]       # the real iteration order
      key = "(Op %s [%s])" % ("KAnd" if k == "A" else "KOr", "; ".join("t%d" % i for i in kids))
    i = self.by_key.get(key)
    if i is None:
      i = len(self.defs)
      self.by_key[key] = i
      self.defs.append(key)
      self.deps.append(kids if k in "AO" else [])
      self.obj.append(t)
      self.canon.append(canon(b, t))
      self.recipe.append(recipe if recipe is not None else self.recipe_of(t))
    return i

  def recipe_of(self, t):
    b = self.b
    k = kind_of(b, t)
    if k == "T":
      return "TRUE"
    if k == "F":
      return "FALSE"
    if k == "E":
      return ["Eq", t.left, t.right]
    return ["And" if k == "A" else "Or", [self.recipe_of(e) for e in t.exprs]]

  def tt(self, i):
    """Truth table over SIGMAS as a 64-bit mask (standard universe only)."""
    m = self._tt.get(i)
    if m is None:
      t = self.obj[i]
      m = 0
      for bit, s in enumerate(SIGMAS):
        if ev(self.b, t, s):
          m |= 1 << bit
      self._tt[i] = m
    return m

  def closure(self, idxs):
    seen = set()
    todo = list(idxs)
    while todo:
      i = todo.pop()
      if i in seen:
        continue
      seen.add(i)
      todo.extend(self.deps[i])
    return sorted(seen)

  def coq_defs(self, idxs):
    return "".join("Definition t%d := %s.\n" % (i, self.defs[i]) for i in self.closure(idxs))

  def coq_names(self):
    return "".join("Definition %s : name := %s.\n" % (v, coq_str(k)) for k, v in self.names.items())


def coq_str(s):
  bs = s.encode("utf-8")
  if all(32 <= c < 127 and c != 34 for c in bs):
    return '"%s"%%string' % s
  return "(bytes_name [%s])" % "; ".join(str(c) for c in bs)


def build(b, recipe):
  """Rebuild a term from a recipe through the public constructors only."""
  if recipe == "TRUE":
    return b.TRUE
  if recipe == "FALSE":
    return b.FALSE
  if recipe[0] == "Eq":
    return b.Eq(recipe[1], recipe[2])
  kids = [build(b, r) for r in recipe[1]]
  return b.And(kids) if recipe[0] == "And" else b.Or(kids)


def recipe_size(r):
  if isinstance(r, str) or r[0] == "Eq":
    return 1
  return 1 + sum(recipe_size(x) for x in r[1])


# --------------------------------------------------------------------------------------------
# tables

def all_tables():
  """Every restriction table over VARS x VALS: each variable absent or mapped to any subset of VALS."""
  opts = [None] + [frozenset(v for j, v in enumerate(VALS) if m >> j & 1) for m in range(1 << len(VALS))]
  out = []
  for combo in itertools.product(opts, repeat=len(VARS)):
    out.append({v: set(s) for v, s in zip(VARS, combo) if s is not None})
  return out


def table_mask(tbl):
  """Bit mask of the standard assignments drawn from tbl (tbl must have all of VARS as keys)."""
  m = 0
  for bit, s in enumerate(SIGMAS):
    if all(s[v] in tbl[v] for v in VARS if v in tbl):
      m |= 1 << bit
  return m


def coq_table(pool, tbl, shared=None):
  def vals(vs):
    key = tuple(sorted(vs))
    if shared is not None and all(v in VALS for v in key):
      if key not in shared:
        shared[key] = "s%d" % len(shared)
      return shared[key]
    return "[%s]" % "; ".join(pool.name_ref(x) for x in key)
  return "[%s]" % "; ".join("(%s, %s)" % (pool.name_ref(k), vals(vs)) for k, vs in tbl.items())


# --------------------------------------------------------------------------------------------
# Coq case files

PREAMBLE = """From Coq Require Import List String Ascii NArith.
From PV Require Import Booleq.Model.
Import ListNotations.
Local Open Scope N_scope.
Definition bytes_name (l : list N) : name := fold_right (fun c s => String (ascii_of_N c) s) EmptyString l.
Definition chk_op (k : kind) (args : list term) (e : term) : bool := res_same (Some (OpC k args)) (Some e).
Definition chk_eq (l r : name) (e : term) : bool := res_same (Some (EqC l r)) (Some e).
Fixpoint failing (i : N) (l : list bool) : list N :=
  match l with [] => [] | b :: r => if b then failing (N.succ i) r else i :: failing (N.succ i) r end.
(* dense: [results] pairs every distinct real result with the bit mask of the tables (by position) that gave it *)
Definition testbit_chunks (l : list N) (i : N) : bool := N.testbit (nth (N.to_nat (i / 60)) l 0) (i mod 60).
Fixpoint chk_dense (i : N) (t : term) (results : list (option term * list N)) (tbls : list table) : list N :=
  match tbls with
  | tb :: tbls' =>
      let rest := chk_dense (N.succ i) t results tbls' in
      match find (fun p => testbit_chunks (snd p) i) results with
      | Some p => if res_same (simplify tb t) (fst p) then rest else i :: rest
      | None => i :: rest
      end
  | [] => []
  end.
Definition chk_at (t : term) (tbls : list table) (cases : list (N * option term)) : list N :=
  flat_map (fun c => match nth_error tbls (N.to_nat (fst c)) with
                     | Some tb => if res_same (simplify tb t) (snd c) then [] else [fst c]
                     | None => [fst c] end) cases.
Definition keep_bad {A} (l : list (A * list N)) :=
  filter (fun p => match snd p with [] => false | _ => true end) l.
"""


def chunk_mask(m):
  """A big bit mask as a list of 60-bit N literals (big decimal literals are slow to parse in Coq)."""
  out = []
  while m:
    out.append(str(m & ((1 << 60) - 1)))
    m >>= 60
  return "[" + ";".join(out) + "]"


def opt_ref(i):
  return "None" if i is None else "(Some t%d)" % i


class CoqBatch:
  """Collects constructor cases and simplify cases, splits them into files, runs them, reports mismatches."""

  def __init__(self, pool, tables):
    self.pool = pool
    self.tables = tables
    self.ctor = []      # (label, coq_bool_expr, [pool idx used])
    self.dense = []     # (label, term idx, [result idx or None], which list)
    self.sparse = []    # (label, term idx, [(table idx, result idx or None)])
    self.extra_tbl = [] # explicit tables appended after the standard ones (edge stream)

  def add_ctor(self, label, kindname, arg_idxs, res_idx):
    self.ctor.append((label, "chk_op %s [%s] t%d" % (kindname, "; ".join("t%d" % i for i in arg_idxs), res_idx),
                      list(arg_idxs) + [res_idx]))

  def add_eq(self, label, l, r, res_idx):
    p = self.pool
    self.ctor.append((label, "chk_eq %s %s t%d" % (p.name_ref(l), p.name_ref(r), res_idx), [res_idx]))

  def table_index(self, tbl):
    self.extra_tbl.append(tbl)
    return len(self.tables) + len(self.extra_tbl) - 1

  def files(self):
    """One kind of file: pool definitions, the tables, then three lists (constructor cases, dense simplify rows,
    sparse simplify rows), each ending with a canary (a wrong expectation that must be reported)."""
    p = self.pool
    npairs = sum(len(c[2]) for c in self.sparse)
    k = int(0.5 * (len(self.ctor) / 1200.0 + len(self.dense) / 80.0 + npairs / 20000.0)) + 1
    k = max(1, min(48, k))
    def part(l, n):
      return [l[(len(l) * n) // k:(len(l) * (n + 1)) // k] for n in range(k)][n]
    all_tbls = self.tables + self.extra_tbl
    bodies, meta = [], {}
    for n in range(k):
      ctor, dense, sparse = part(self.ctor, n), part(self.dense, n), part(self.sparse, n)
      used = [i for c in ctor for i in c[2]]
      used += [c[1] for c in dense] + [i for c in dense for i in c[2] if i is not None]
      used += [c[1] for c in sparse] + [i for c in sparse for (_, i) in c[2] if i is not None]
      body = [p.coq_defs(used)]
      shared = {}
      tbl_txt = ";\n  ".join(coq_table(p, t, shared) for t in all_tbls)
      for key, nm in shared.items():
        body.append("Definition %s : list name := [%s]." % (nm, "; ".join(p.name_ref(x) for x in key)))
      body.append("Definition tables : list table := [\n  %s\n]." % tbl_txt)
      body.append("Definition std_tables := firstn (N.to_nat %d) tables." % len(self.tables))
      body.append("Definition cases : list bool := [\n  %s\n  chk_op KAnd [TEq n0 n3; TEq n1 n3] (TEq n0 n3)\n]." %
                  "".join(c[1] + ";\n  " for c in ctor))
      rows = []
      for j, (label, ti, results, which) in enumerate(dense):
        masks = [0] * len(results)
        for pos, w in enumerate(which):
          masks[w] |= 1 << pos
        rows.append("(%d, chk_dense 0 t%d [%s] std_tables)" % (
            j, ti, "; ".join("(%s, %s)" % (opt_ref(i), chunk_mask(m)) for i, m in zip(results, masks))))
      rows.append("(%d, chk_dense 0 (TEq n0 n3) [(Some (TEq n1 n3), [3])] (firstn (N.to_nat 2) tables))" % len(dense))
      body.append("Definition drows : list (N * list N) := [\n  %s\n]." % ";\n  ".join(rows))
      rows = []
      for j, (label, ti, pairs) in enumerate(sparse):
        rows.append("(%d, chk_at t%d tables [%s])" % (
            j, ti, "; ".join("(%d, %s)" % (q, opt_ref(i)) for q, i in pairs)))
      rows.append("(%d, chk_at (TEq n0 n3) tables [(0, Some (TEq n1 n3))])" % len(sparse))
      body.append("Definition srows : list (N * list N) := [\n  %s\n]." % ";\n  ".join(rows))
      body.append("Eval vm_compute in (failing 0 cases).")
      body.append("Eval vm_compute in (keep_bad drows).")
      body.append("Eval vm_compute in (keep_bad srows).")
      name = "c17_cases_%d" % n
      bodies.append((name, body))
      meta[name] = (ctor, dense, sparse)
    names_def = p.coq_names()       # after all name_ref calls
    return [(n, PREAMBLE + names_def + "\n".join(b) + "\n") for n, b in bodies], meta

  def run(self, res):
    """Returns list of mismatches: dicts with label + detail; registers failed obligations for broken files."""
    files, meta = self.files()
    t0 = time.time()
    results = common.run_cases_parallel(files, timeout=1500)
    res.extra["coq_case_files"] = len(files)
    res.extra["coq_cases_wall_s"] = round(time.time() - t0, 1)
    mism = []
    all_tbls = self.tables + self.extra_tbl
    for name, _ in files:
      ok, out = results[name]
      ctor, dense, sparse = meta[name]
      if not ok:
        res.obligation("model-run:" + name, False, out[-1500:])
        continue
      terms = common.parse_coq_eval(out)
      if len(terms) != 3:
        res.obligation("model-run:" + name, False, "unexpected output: " + out[-800:])
        continue
      bad = [int(x) for x in re.findall(r"\d+", terms[0])]
      if len(ctor) not in bad:
        res.obligation("comparator-live:" + name, False, "the constructor canary was not reported: " + terms[0][:300])
      for i in bad:
        if i < len(ctor):
          mism.append({"what": "constructor", "label": ctor[i][0], "coq": ctor[i][1], "file": name})
      for what, chunk, txt in (("dense", dense, terms[1]), ("sparse", sparse, terms[2])):
        rows = {}
        for m in re.finditer(r"\(\s*(\d+)\s*,\s*\[([\d;\s]*)\]\s*\)", txt):
          rows[int(m.group(1))] = [int(x) for x in m.group(2).replace(";", " ").split()]
        if len(chunk) not in rows:
          res.obligation("comparator-live:" + name, False, "the %s canary was not reported: %s" % (what, txt[:300]))
        for j, tis in sorted(rows.items()):
          if j < len(chunk):
            for ti in tis[:3]:
              mism.append({"what": "simplify", "label": chunk[j][0], "term": self.pool.defs[chunk[j][1]],
                           "term_canon": show(self.pool.canon[chunk[j][1]]),
                           "table": {q: sorted(v) for q, v in all_tbls[ti].items()} if ti < len(all_tbls) else ti,
                           "file": name, "term_idx": chunk[j][1], "table_idx": ti})
    return mism

  def model_value(self, term_idx, tbl):
    """What the model computes for one (term, table): for the mismatch report."""
    p = self.pool
    body = PREAMBLE + p.coq_names() + p.coq_defs([term_idx]) + \
        "Eval vm_compute in (simplify %s t%d).\n" % (coq_table(p, tbl), term_idx)
    ok, out = common.run_cases_v("c17_detail", body, timeout=120)
    r = common.parse_coq_eval(out)
    return r[0] if ok and r else out[-400:]


def chunks(l, n):
  for i in range(0, len(l), n):
    yield l[i:i + n]


# --------------------------------------------------------------------------------------------
# drift sentinel

def source_digest():
  path = os.path.join(common.REPO, "pytype", "pytd", "booleq.py")
  tree = ast.parse(open(path).read())
  keep = []
  for node in tree.body:
    if isinstance(node, ast.FunctionDef) and node.name in ("simplify_exprs", "Eq", "And", "Or", "_expr_set_hash"):
      keep.append(ast.dump(node))
    if isinstance(node, ast.ClassDef) and node.name in ("TrueValue", "FalseValue", "_Eq", "_And", "_Or"):
      for f in node.body:
        if isinstance(f, ast.FunctionDef) and f.name in ("__init__", "__eq__", "__hash__", "simplify"):
          keep.append(node.name + "." + ast.dump(f))
    if isinstance(node, ast.Assign):
      keep.append(ast.dump(node))
  return hashlib.sha256("\n".join(keep).encode()).hexdigest()[:16]


# --------------------------------------------------------------------------------------------
# the run

class Enough(Exception):
  pass


class Ctx:
  def __init__(self, res, b):
    self.res = res
    self.b = b
    self.pool = Pool(b, NAMES)
    self.tables = all_tables()
    self.masks = [table_mask(t) if all(v in t for v in VARS) else None for t in self.tables]
    self.batch = CoqBatch(self.pool, self.tables)
    self.hist = {"eq_calls": 0, "op_calls": 0, "simplify_pairs": 0, "keyerror": 0, "pairs_covered": 0,
                 "pairs_vacuous": 0, "result_changed": 0, "result_const": 0}
    self.vars_cache = {}
    self.nviol = 0

  # -- violations found by the oracle on the real code
  def violation(self, fp, what, replay):
    if self.nviol >= 3:
      return
    replay = shrink_replay(self.b, replay)
    try:
      v = check_replay(self.b, replay)
      if v and v[0] == fp:
        what = v[1]
    except Exception:  # pylint: disable=broad-except
      pass
    if self.res.violation(fp, what, replay):
      self.nviol += 1

  def call_eq(self, l, r):
    b = self.b
    t = b.Eq(l, r)
    self.hist["eq_calls"] += 1
    i = self.pool.intern(t, ["Eq", l, r])
    self.batch.add_eq("Eq(%r,%r)" % (l, r), l, r, i)
    rep = {"kind": "construct", "recipe": ["Eq", l, r]}
    bad = check_construct(b, rep)
    if bad:
      self.violation(bad[0], bad[1], rep)
    self.res.count(("eq", l, r) if l != r else None)
    return i

  def call_op(self, kindname, arg_idxs, general=False):
    if self.nviol >= 3:
      raise Enough()
    b = self.b
    p = self.pool
    args = [p.obj[i] for i in arg_idxs]
    t = (b.And if kindname == "And" else b.Or)(args)
    self.hist["op_calls"] += 1
    recipe = [kindname, [p.recipe[i] for i in arg_idxs]]
    i = p.intern(t, recipe)
    self.batch.add_ctor("%s(%s)" % (kindname, ", ".join(show(p.canon[a]) for a in arg_idxs)),
                        "KAnd" if kindname == "And" else "KOr", arg_idxs, i)
    nontrivial = len(arg_idxs) >= 2 and any(kind_of(b, a) not in "TF" for a in args)
    self.res.count((kindname, tuple(arg_idxs)) if nontrivial else None)
    if general:          # names outside the standard universe: brute-force oracle
      rep = {"kind": "construct", "recipe": recipe}
      bad = check_construct(b, rep)
      if bad:
        self.violation(bad[0], bad[1], rep)
      return i
    # oracle: plain connective under all 64 assignments (bit masks), normal form
    full = (1 << len(SIGMAS)) - 1
    if kindname == "And":
      want = full
      for a in arg_idxs:
        want &= p.tt(a)
    else:
      want = 0
      for a in arg_idxs:
        want |= p.tt(a)
    nv = normal_violation(b, t)
    if p.tt(i) != want or nv:
      rep = {"kind": "construct", "recipe": recipe}
      bad = check_construct(b, rep) or ("%s-oracle-disagrees" % kindname.lower(), "mask oracle and replay oracle disagree")
      self.violation(bad[0], bad[1], rep)
    return i

  def simplify_pair(self, ti, tbl, mask):
    """Runs the real simplify on (term ti, tbl); returns result pool index or None (KeyError); runs the oracle."""
    if self.nviol >= 3:
      raise Enough()
    b = self.b
    p = self.pool
    t = p.obj[ti]
    self.hist["simplify_pairs"] += 1
    try:
      r = t.simplify(tbl)
    except KeyError:
      self.hist["keyerror"] += 1
      return None
    ri = p.intern(r)
    if ri != ti:
      self.hist["result_changed"] += 1
      if kind_of(b, r) in "TF":
        self.hist["result_const"] += 1
    bad = None
    vs = self.vars_cache.get(ti)
    if vs is None:
      vs = self.vars_cache[ti] = term_vars(b, t)
    if all(v in tbl for v in vs):
      self.hist["pairs_covered"] += 1
      if mask is None:      # some standard variable is not a key but the term does not mention it
        mask = table_mask({v: tbl.get(v, set(SIGMA_VALS)) for v in VARS})
      if mask == 0:
        self.hist["pairs_vacuous"] += 1
      if (p.tt(ri) ^ p.tt(ti)) & mask:
        bad = True
    if normal_violation(b, r) and not normal_violation(b, t):
      bad = True
    if bad:
      rep = {"kind": "simplify", "recipe": p.recipe[ti], "table": {k: sorted(v) for k, v in tbl.items()}}
      v = check_simplify(b, rep) or ("simplify-oracle-disagrees", "mask oracle and replay oracle disagree")
      self.violation(v[0], v[1], rep)
    return ri


def check_construct(b, rep):
  """Direct oracle on the real code for a constructor recipe (top call): (fingerprint, what) or None."""
  r = rep["recipe"]
  try:
    t = build(b, r)
  except Exception as e:  # pylint: disable=broad-except
    return ("construct-raises:" + type(e).__name__, "constructor raised %r" % (e,))
  try:
    if isinstance(r, str):
      return None
    if r[0] == "Eq":
      names = {r[1], r[2]}
      vs = sorted(n for n in names if is_var(n))
      univ = sorted({n for n in names if not is_var(n)} | set(SIGMA_VALS))
      for combo in itertools.product(univ, repeat=len(vs)):
        s = dict(zip(vs, combo))
        l = s.get(r[1], r[1]); rr = s.get(r[2], r[2])
        if ev(b, t, s) != (l == rr):
          return ("eq-not-equivalent", "Eq(%r,%r) = %s is %s under %s" % (r[1], r[2], show(canon(b, t)), ev(b, t, s), s))
      if r[1] == r[2] and t is not b.TRUE:
        return ("eq-same-not-true", "Eq(x,x) is not TRUE")
      nv = normal_violation(b, t)
      return (nv, "Eq(%r,%r) = %s, but Eq() documents left > right" % (r[1], r[2], show(canon(b, t)))) if nv else None
    kids = [build(b, x) for x in r[1]]
    names = set()
    for k in kids:
      term_names(b, k, names)
    term_names(b, t, names)
    vs = sorted(n for n in names if is_var(n))
    univ = sorted({n for n in names if not is_var(n)} | set(SIGMA_VALS))
    for combo in itertools.product(univ, repeat=len(vs)):
      s = dict(zip(vs, combo))
      want = all(ev(b, k, s) for k in kids) if r[0] == "And" else any(ev(b, k, s) for k in kids)
      if ev(b, t, s) != want:
        return ("%s-not-equivalent" % r[0].lower(),
                "%s(%s) = %s is %s under %s, the plain connective is %s" % (
                    r[0], ", ".join(show(canon(b, k)) for k in kids), show(canon(b, t)), ev(b, t, s), s, want))
    nv = normal_violation(b, t)
    if nv and not any(normal_violation(b, k) for k in kids):
      return ("%s-not-normal:%s" % (r[0].lower(), nv),
              "%s(%s) = %s" % (r[0], ", ".join(show(canon(b, k)) for k in kids), show(canon(b, t))))
  except Exception as e:  # pylint: disable=broad-except
    return ("construct-malformed:" + type(e).__name__, "result cannot be inspected: %r" % (e,))
  return None


def check_simplify(b, rep):
  """Direct oracle on the real code for (recipe, table): (fingerprint, what) or None."""
  t = build(b, rep["recipe"])
  tbl = {k: set(v) for k, v in rep["table"].items()}
  vs = sorted(term_vars(b, t))
  if not all(v in tbl for v in vs):
    return None                      # no assignment can be drawn from the table
  try:
    r = t.simplify(tbl)
  except KeyError:
    names = term_names(b, t)
    if all(is_var(l) or is_var(r_) for (l, r_) in eq_pairs(b, t)):
      return ("simplify-keyerror-on-covered-term", "KeyError although every variable of %s is a key of %s" % (
          show(canon(b, t)), rep["table"]))
    return None
  except Exception as e:  # pylint: disable=broad-except
    return ("simplify-raises:" + type(e).__name__, "simplify raised %r" % (e,))
  try:
    for combo in itertools.product(*[sorted(tbl[v]) for v in vs]):
      s = dict(zip(vs, combo))
      if ev(b, r, s) != ev(b, t, s):
        return ("simplify-not-equivalent:" + kind_of(b, t),
                "%s simplifies against %s to %s; under %s the original is %s, the result %s" % (
                    show(canon(b, t)), rep["table"], show(canon(b, r)), s, ev(b, t, s), ev(b, r, s)))
    nv = normal_violation(b, r)
    if nv and not normal_violation(b, t):
      return ("simplify-not-normal:" + nv, "%s simplifies against %s to %s" % (
          show(canon(b, t)), rep["table"], show(canon(b, r))))
  except Exception as e:  # pylint: disable=broad-except
    return ("simplify-malformed:" + type(e).__name__, "result cannot be inspected: %r" % (e,))
  return None


def eq_pairs(b, t):
  k = kind_of(b, t)
  if k == "E":
    return [(t.left, t.right)]
  if k in "AO":
    return [p for e in t.exprs for p in eq_pairs(b, e)]
  return []


def check_replay(b, rep):
  return check_construct(b, rep) if rep["kind"] == "construct" else check_simplify(b, rep)


def shrink_replay(b, rep, budget_s=20.0):
  """Greedy: replace the recipe by a sub-recipe / drop list elements / drop table entries while the oracle still
  reports the same fingerprint."""
  deadline = time.time() + budget_s
  try:
    base = check_replay(b, rep)
  except Exception:  # pylint: disable=broad-except
    return rep
  if not base:
    return rep
  fp = base[0]

  def still(r):
    try:
      v = check_replay(b, r)
    except Exception:  # pylint: disable=broad-except
      return False
    return bool(v) and v[0] == fp

  def variants(r):
    if isinstance(r, str) or r[0] == "Eq":
      return
    for x in r[1]:
      yield x
    for i in range(len(r[1])):
      yield [r[0], r[1][:i] + r[1][i + 1:]]
    for i, x in enumerate(r[1]):
      for v in variants(x):
        yield [r[0], r[1][:i] + [v] + r[1][i + 1:]]

  changed = True
  while changed and time.time() < deadline:
    changed = False
    for v in variants(rep["recipe"]):
      cand = dict(rep, recipe=v)
      if still(cand):
        rep = cand; changed = True
        break
    if rep["kind"] == "simplify" and not changed:
      for k in list(rep["table"]):
        for drop in rep["table"][k]:
          cand = dict(rep, table=dict(rep["table"], **{k: [x for x in rep["table"][k] if x != drop]}))
          if still(cand):
            rep = cand; changed = True
            break
        if changed:
          break
  return rep


def run(res):
  b = booleq()
  thorough = res.tier == "thorough"
  digest = source_digest()
  drift = digest != VALIDATED_DIGEST
  level = 2 if thorough else (1 if drift else 0)
  res.extra["source_digest"] = digest
  res.extra["drift_escalation"] = bool(drift and not thorough)
  res.rule = ("terms built through the public constructors over variables ~a ~b ~c and values x y z: every Eq(l,r) "
              "(36 ordered pairs incl. var=var, value=value, l==r); every And/Or call with an argument list of length "
              "0..2 over {TRUE, FALSE, the 15 _Eq} (depth 2) and of length 3 (800 sampled calls in quick, all 9826 in "
              "thorough); And/Or over ordered pairs of depth<=2 terms (depth 3: 2000 sampled calls in quick, all 116k in "
              "thorough) plus random wider/deeper calls. simplify: every depth<=2 arity<=2 term against ALL 729 "
              "restriction tables (each variable absent or mapped to any subset of the 3 values); arity-3 terms against "
              "all tables (40 sampled terms in quick, all in thorough); depth-3 and wider terms against 8 (quick) / "
              "12-24 (thorough) sampled tables each. Edge stream: names '', '~', '~~', DEL and non-ASCII values that "
              "sort above '~', tables keyed by value names. corpus/C17 runs first. A constructor call is non-trivial "
              "if it has >=2 arguments not all constants (distinct by argument terms); a simplify pair is non-trivial "
              "if the result differs from the input (distinct by term and table). A changed digest of the modelled "
              "source escalates a quick run to a larger budget (never a verdict).")
  res.assumptions = [
      "Python str comparison = bytewise lexicographic order of the UTF-8 encoding (Coq String.compare); exercised "
      "by the edge stream",
      "Python set of terms modelled as a duplicate-free list under the model of __eq__ (hash/eq protocol, "
      "set.__eq__ as mutual inclusion); iteration order of real sets is an input of the model, not modelled",
      "variables are exactly the names starting with '~' (booleq.py's documented convention); semantics eval is "
      "the property's reading of the terms",
      "generator, renderer and differ in harness/props/c17.py; Model.res_same (set comparison inside Coq), "
      "checked live by a canary case in every cases file",
  ]
  t_ph = time.time()
  common.coq_obligations(res, "C17", extra_targets=["Booleq/Model.vo"])
  res.extra["phase_s"] = {"coq_build_and_theorems(incl. waiting for the shared build lock)": round(time.time() - t_ph, 1)}
  t_ph = time.time()
  cx = Ctx(res, b)
  r = common.rng(res.seed, "c17")
  p = cx.pool

  def generate():
    # ---- corpus first
    cdir = os.path.join(common.CORPUS, "C17")
    corpus = []
    for f in sorted(os.listdir(cdir)) if os.path.isdir(cdir) else []:
      corpus.append((f, json.load(open(os.path.join(cdir, f)))))
    res.extra["corpus_entries"] = len(corpus)
    for f, rep in corpus:
      if rep.get("kind") not in ("construct", "simplify"):
        continue                                   # solver / pivots entries: run by c17_solver.run_leg
      v = check_replay(b, rep)
      if v:
        cx.violation(v[0], v[1], rep)
      rc = rep["recipe"]
      if rep["kind"] == "simplify":
        ti = p.intern(build(b, rc), rc)
        tbl = {k: set(vv) for k, vv in rep["table"].items()}
        ri = simplify_general(cx, ti, tbl)
        cx.batch.sparse.append(("corpus:" + f, ti, [(cx.batch.table_index(tbl), ri)]))
      elif not isinstance(rc, str) and rc[0] in ("And", "Or"):
        kids = [p.intern(build(b, x), x) for x in rc[1]]
        cx.call_op(rc[0], kids, general=True)
      elif not isinstance(rc, str) and rc[0] == "Eq":
        cx.call_eq(rc[1], rc[2])

    # ---- depth 1: all Eq calls
    p.intern(b.TRUE, "TRUE"); p.intern(b.FALSE, "FALSE")
    atoms = [p.by_key["T"], p.by_key["F"]]
    for l in NAMES:
      for rr in NAMES:
        i = cx.call_eq(l, rr)
        if i not in atoms:
          atoms.append(i)
    # ---- depth 2: And/Or over argument lists of length 0..2 (all), 3 (all in deep, sample in quick)
    d2 = list(atoms)
    def add(level, i):
      if i not in level_set:
        level_set.add(i); level.append(i)
    level_set = set(d2)
    for kn in ("And", "Or"):
      for n in (0, 1, 2):
        for args in itertools.product(atoms, repeat=n):
          add(d2, cx.call_op(kn, list(args)))
    d2_small = list(d2)                              # arity <= 2
    # ---- simplify: dense = every table; sparse = sampled tables
    def dense(ti, label):
      results, pos, which = [], {}, []
      for k, tbl in enumerate(cx.tables):
        ri = cx.simplify_pair(ti, tbl, cx.masks[k])
        if ri not in pos:
          pos[ri] = len(results); results.append(ri)
        which.append(pos[ri])
        res.count((ti, k) if ri != ti else None)
        if ri is not None and ri != ti and len(res.samples) < 4 and (ti * 31 + k) % 997 == 0:
          res.sample({"term": show(p.canon[ti]), "table": {q: sorted(v) for q, v in tbl.items()},
                      "simplified_impl": show(p.canon[ri])})
      cx.batch.dense.append((label, ti, results, which))
    def sparse(ti, label, n):
      ks = r.sample(range(ntab), n)
      prs = []
      for k in ks:
        ri = cx.simplify_pair(ti, cx.tables[k], cx.masks[k])
        prs.append((k, ri))
        res.count((ti, k) if ri != ti else None)
      cx.batch.sparse.append((label, ti, prs))
    for ti in d2_small:
      dense(ti, "d2")
    triples = list(itertools.product(atoms, repeat=3))
    if level == 0:
      triples = r.sample(triples, 400)
    d2_big = []
    for kn in ("And", "Or"):
      for args in triples:
        i = cx.call_op(kn, list(args))
        if i not in level_set:
          level_set.add(i); d2_big.append(i)
    # ---- depth 3: And/Or over pairs of depth<=2 (arity<=2) terms
    pairs = list(itertools.product(d2_small, repeat=2))
    if level < 2:
      pairs = r.sample(pairs, 3000 if level else 1000)
    d3 = []
    seen3 = set()
    for kn in ("And", "Or"):
      for args in pairs:
        i = cx.call_op(kn, list(args))
        if i not in level_set and i not in seen3:
          seen3.add(i); d3.append(i)
    # a few wider / deeper random terms through the API
    deep_terms = []
    lvl = d2_small + d3[:2000]
    for _ in range((300, 1000, 3000)[level]):
      n = r.choice([2, 3, 3, 4, 5])
      i = cx.call_op(r.choice(["And", "Or"]), [r.choice(lvl) for _ in range(n)])
      if i not in level_set and i not in seen3:
        seen3.add(i); deep_terms.append(i)
        if len(lvl) < 6000:
          lvl.append(i)
    info["d2_small"], info["d3"] = d2_small, d3
    res.extra["terms"] = {"atoms": len(atoms), "depth<=2 arity<=2": len(d2_small), "depth2 arity3 (new)": len(d2_big),
                          "depth3 (new)": len(d3), "random wider/deeper (new)": len(deep_terms)}

    # ---- simplify for the wider/deeper terms
    if level == 2:
      for ti in d2_big:
        dense(ti, "d2w")
      for ti in d3:
        sparse(ti, "d3", 12)
      for ti in deep_terms:
        sparse(ti, "rnd", 24)
    else:
      for ti in r.sample(d2_big, min(len(d2_big), 150 if level else 40)):
        dense(ti, "d2w")
      for ti in d2_big:
        sparse(ti, "d2w", 8)
      for ti in d3:
        sparse(ti, "d3", 8)
      for ti in deep_terms:
        sparse(ti, "rnd", 8)

    # ---- edge stream: odd names (orientation above '~', empty, non-ASCII), odd tables (value names as keys)
    edge_terms = []
    for l in EDGE_NAMES:
      for rr in EDGE_NAMES:
        edge_terms.append(cx.call_eq(l, rr))
    edge_atoms = sorted(set(edge_terms))
    edge_ops = []
    for n in range((250, 600, 1200)[level]):
      src = edge_atoms + atoms if n % 3 or not edge_ops else edge_ops + edge_atoms
      args = [r.choice(src) for _ in range(r.choice([1, 2, 2, 3]))]
      if len(set().union(*[term_names(b, p.obj[a]) for a in args])) > 6:
        continue                                   # keeps the brute-force truth table small
      edge_ops.append(cx.call_op(r.choice(["And", "Or"]), args, general=True))
    edge_terms = sorted(set(edge_atoms + edge_ops))
    for ti in r.sample(edge_terms, min(len(edge_terms), (300, 700, 1500)[level])):
      prs = []
      for _ in range(4):
        keys = r.sample(EDGE_NAMES + VARS + VALS, r.randint(0, 6))
        if r.random() < 0.6:       # mostly cover the variables so the oracle applies
          keys = sorted(set(keys) | term_vars(b, p.obj[ti]))
        tbl = {k: set(r.sample(EDGE_NAMES + VALS, r.randint(0, 4))) for k in keys}
        ri = simplify_general(cx, ti, tbl)
        prs.append((cx.batch.table_index(tbl), ri))
      cx.batch.sparse.append(("edge", ti, prs))


  info = {"d2_small": [], "d3": []}
  ntab = len(cx.tables)
  try:
    generate()
  except Enough:
    # three concrete violations are already on record: the remaining enumeration would only repeat them
    res.extra["stopped_early"] = "3 violations with concrete inputs found"
    cx.batch.ctor = cx.batch.ctor[:1500]; cx.batch.dense = cx.batch.dense[:40]; cx.batch.sparse = cx.batch.sparse[:300]
  d2_small, d3 = info["d2_small"], info["d3"]
  res.extra["phase_s"]["implementation_runs_and_oracle"] = round(time.time() - t_ph, 1)

  # ---- model vs implementation
  mism = cx.batch.run(res)
  for m in mism[:3]:
    detail = dict(m)
    if m["what"] == "simplify":
      tbls = cx.batch.tables + cx.batch.extra_tbl
      detail["model"] = cx.batch.model_value(m["term_idx"], tbls[m["table_idx"]])
      try:
        detail["impl"] = show(canon(b, p.obj[m["term_idx"]].simplify(tbls[m["table_idx"]])))
      except KeyError:
        detail["impl"] = "KeyError"
    res.obligation("correspondence:" + m["what"] + ":" + m["label"][:60], False, json.dumps(detail, default=str)[:1500])
  res.obligation("correspondence:model-vs-booleq", not mism,
                 "%d disagreements (%d constructor calls, %d simplify pairs compared)" % (
                     len(mism), cx.hist["eq_calls"] + cx.hist["op_calls"], cx.hist["simplify_pairs"]))
  # ---- the consumer: Solver / extract_pivots / extract_equalities against coq/Booleq/Solver.v
  import c17_solver  # pylint: disable=import-outside-toplevel
  t_ph = time.time()
  c17_solver.run_leg(res, b, common.rng(res.seed, "c17-solver"), level)
  res.extra["phase_s"]["solver_leg"] = round(time.time() - t_ph, 1)
  res.extra["distribution"] = cx.hist
  res.extra["tables"] = ntab
  res.extra["pool_terms"] = len(p.defs)
  for i in ((d2_small[40], d2_small[-1]) if len(d2_small) > 40 else ()) + ((d3[0],) if d3 else ()):
    tbl = cx.tables[r.randrange(ntab)]
    try:
      out = show(canon(b, p.obj[i].simplify(tbl)))
    except KeyError:
      out = "KeyError"
    res.sample({"term": show(p.canon[i]), "table": {k: sorted(v) for k, v in tbl.items()}, "simplified": out})
  if thorough:
    ok, out = common_coqchk("C17")
    res.obligation("coqchk", ok, out[-1500:])
  return "proof"


def simplify_general(cx, ti, tbl):
  """simplify_pair for tables/terms outside the standard universe: brute-force oracle instead of bit masks."""
  b, p = cx.b, cx.pool
  t = p.obj[ti]
  cx.hist["simplify_pairs"] += 1
  rep = {"kind": "simplify", "recipe": p.recipe[ti], "table": {k: sorted(v) for k, v in tbl.items()}}
  v = check_simplify(b, rep)
  if v:
    cx.violation(v[0], v[1], rep)
  try:
    rr = t.simplify(tbl)
  except KeyError:
    cx.hist["keyerror"] += 1
    cx.res.count(None)
    return None
  ri = p.intern(rr)
  if ri != ti:
    cx.hist["result_changed"] += 1
  cx.res.count(("edge", ti, json.dumps(rep["table"], sort_keys=True)) if ri != ti else None)
  return ri


def common_coqchk(pid):
  r = subprocess.run(["timeout", "1500", "coqchk", "-silent", "-o", "-Q", common.COQ, "PV", f"PV.Props.{pid}"],
                     capture_output=True, text=True, cwd=common.COQ)
  return r.returncode == 0, r.stdout + r.stderr


def replay(res, path):
  b = booleq()
  d = json.load(open(path))
  rep = d["replay"]
  if rep.get("kind") in ("solver", "pivots"):
    import c17_solver  # pylint: disable=import-outside-toplevel
    return c17_solver.replay_solver(res, b, rep)
  t = build(b, rep["recipe"])
  print("recipe :", json.dumps(rep["recipe"]))
  print("term   :", show(canon(b, t)))
  if rep["kind"] == "simplify":
    tbl = {k: set(v) for k, v in rep["table"].items()}
    print("table  :", rep["table"])
    try:
      print("impl   :", show(canon(b, t.simplify(tbl))))
    except Exception as e:  # pylint: disable=broad-except
      print("impl   : raised %r" % (e,))
  v = check_replay(b, rep)
  print("oracle :", "OK (equivalent, normal)" if not v else "%s -- %s" % v)
  return 1 if v else 0
