"""C20, file level: directory-tree cases for merge_tree / merge_files / main, their encoding for the Coq model
coq/Merge/Files.v (PV.Merge.Files), the real runs in a scratch directory and the decoding of the model's answers.

A case is a JSON-able dict ("spec"):
  case_dir   name of the case directory (created inside the scratch directory W)
  cwd        "case" | "parent": the working directory of the run (W/case_dir or W)
  files      [[relative path from the case directory, "d" | "f", contents as a latin-1 string], ...] in creation order
  top, P     the py_path / pyi_path argument strings of merge_tree          (tree cases)
  backup     None | str
  py, pyi, mode (1 PRINT, 2 DIFF, 3 OVERWRITE), entry ("merge_files" | "main")   (file cases)
Everything below W is listed (os.scandir order) before and after the run; the model's tree is that listing embedded at
W's real absolute location under the root '/'.
"""
import contextlib
import difflib
import io
import os
import re
import shutil

import common

FTREES = os.path.join(common.BUILD, "c20", "ftrees")

V_HEADER = ("From Coq Require Import List NArith Bool.\nFrom PV Require Import Merge.Files.\n"
            "Import ListNotations.\nOpen Scope N_scope.\nSet Printing Depth 10000000.\nSet Printing Width 2000.\n")


# ---------------------------------------------------------------------------------------------
# text codec as the model states it (utf-8 strict + universal newlines); the correspondence checks it against open()

def decode_text(b):
  try:
    return b.decode("utf-8").replace("\r\n", "\n").replace("\r", "\n")
  except UnicodeDecodeError:
    return None


# ---------------------------------------------------------------------------------------------
# Coq encoding

def split_path(s):
  k = len(s) - len(s.lstrip("/"))
  rest = s[k:]
  return k, (rest.split("/") if rest else [])


def unsplit_path(k, comps):
  return "/" * k + "/".join(comps)


class Interner:
  """Shared definitions of one .v file: numeral constants c<n> (a reference is several times cheaper for coqc than a number
  literal), names n<k>, file contents / texts x<k>."""

  def __init__(self):
    self.nums = set()
    self.names = {}
    self.ids = {}
    self.defs = []

  def num(self, n):
    if n >= 256:
      return str(n)
    self.nums.add(n)
    return "c%d" % n

  def name(self, s):
    if s not in self.names:
      self.names[s] = "n%d" % len(self.names)
      self.defs.append("Definition %s : name := [%s]." % (self.names[s], ";".join(self.num(ord(c)) for c in s)))
    return self.names[s]

  def ref(self, seq):
    seq = tuple(seq)
    if seq not in self.ids:
      self.ids[seq] = "x%d" % len(self.ids)
      self.defs.append("Definition %s : list N := [%s]." % (self.ids[seq], ";".join(self.num(n) for n in seq)))
    return self.ids[seq]

  def text(self, s):
    return self.ref(ord(c) for c in s)

  def bytes(self, b):
    return self.ref(b)

  def pth(self, s):
    k, comps = split_path(s)
    return "(mkP %d [%s])" % (k, ";".join(self.name(c) for c in comps))

  def loc(self, comps):
    return "[" + ";".join(self.name(c) for c in comps) + "]"

  def backup(self, b):
    return "None" if b is None else "(Some %s)" % self.name(b)

  def header(self):
    return (V_HEADER + "".join("Definition c%d : N := %d.\n" % (n, n) for n in sorted(self.nums)) +
            "\n".join(self.defs) + "\n")


def abs_comps(path):
  return [c for c in path.split("/") if c]


def coq_tree(node, it):
  if node[0] == "F":
    return "File " + it.bytes(node[1])
  return "Dir [" + ";".join("(%s, %s)" % (it.name(n), coq_tree(c, it)) for n, c in node[1]) + "]"


def embed(w, node, it):
  """The listing of W as a tree rooted at '/'."""
  t = coq_tree(node, it)
  for c in reversed(abs_comps(w)):
    t = "Dir [(%s, %s)]" % (it.name(c), t)
  return t


def coq_table(entries, it):
  """entries: [(py_text, pyi_text, merged or None)]."""
  return "[" + ";".join("((%s,%s), %s)" % (it.text(p), it.text(s), "None" if m is None else "Some " + it.text(m))
                        for p, s, m in entries) + "]"


# ---------------------------------------------------------------------------------------------
# decoding the flattened answers

class Stream:
  def __init__(self, nums):
    self.n, self.i = nums, 0

  def get(self):
    v = self.n[self.i]
    self.i += 1
    return v

  def name(self):
    return "".join(chr(self.get()) for _ in range(self.get()))

  def blob(self):
    return bytes(self.get() for _ in range(self.get()))

  def codepoints(self):
    return "".join(chr(self.get()) for _ in range(self.get()))

  def loc(self):
    return tuple(self.name() for _ in range(self.get()))

  def pth(self):
    k = self.get()
    return unsplit_path(k, list(self.loc()))

  def opt_pth(self):
    return self.pth() if self.get() else None

  def files(self):
    out = {}
    for _ in range(self.get()):
      l = self.loc()
      out[l] = self.blob()
    return out

  def done(self):
    return self.i == len(self.n)


def nums_of(term):
  return [int(x) for x in re.findall(r"\d+", term)]


def decode_tree_answer(term):
  s = Stream(nums_of(term))
  files = s.files()
  changed = [s.pth() for _ in range(s.get())]
  errors = [s.pth() for _ in range(s.get())]
  raised = bool(s.get())
  if not s.done():
    raise ValueError("trailing numbers in a run_tree answer")
  return {"files": files, "changed": changed, "errors": errors, "raised": raised}


def decode_jobs_answer(term):
  s = Stream(nums_of(term))
  out = [(s.pth(), s.pth()) for _ in range(s.get())]
  if not s.done():
    raise ValueError("trailing numbers in a run_jobs_only answer")
  return out


def decode_file_answer(term):
  s = Stream(nums_of(term))
  files = s.files()
  code = s.get()
  kind = s.get()
  printed = None
  if kind == 1:
    printed = ("text", s.codepoints())
  elif kind == 2:
    printed = ("diff", s.codepoints(), s.codepoints())
  if not s.done():
    raise ValueError("trailing numbers in a run_file answer")
  return {"files": files, "code": code, "printed": printed}


# ---------------------------------------------------------------------------------------------
# the scratch directory

def listing(path):
  """('D', [(name, node), ...]) in os.scandir order | ('F', bytes)."""
  out = []
  with os.scandir(path) as sc:
    entries = list(sc)
  for e in entries:
    if e.is_symlink():
      raise RuntimeError("symbolic link in the scratch tree: " + e.path)
    if e.is_dir(follow_symlinks=False):
      out.append((e.name, listing(e.path)))
    else:
      with open(e.path, "rb") as f:
        out.append((e.name, ("F", f.read())))
  return ("D", out)


def flatten(node, prefix):
  """location tuple -> bytes (file) | None (directory)."""
  out = {}
  def go(n, loc):
    if n[0] == "F":
      out[loc] = n[1]
    else:
      out[loc] = None
      for name, c in n[1]:
        go(c, loc + (name,))
  go(node, tuple(prefix))
  return out


def depth_of(node):
  return 0 if node[0] == "F" else 1 + max([depth_of(c) for _, c in node[1]] + [0])


def build(spec, w):
  shutil.rmtree(w, ignore_errors=True)
  base = os.path.join(w, spec["case_dir"])
  os.makedirs(base)
  for rel, kind, data in spec["files"]:
    p = os.path.join(base, rel)
    if kind == "d":
      os.makedirs(p, exist_ok=True)
    else:
      os.makedirs(os.path.dirname(p), exist_ok=True)
      with open(p, "wb") as f:
        f.write(data.encode("latin-1"))
  return base


def _real(p):
  return tuple(abs_comps(os.path.realpath(p)))


def run_tree_real(spec, w):
  """Builds the tree, lists it, records the (py, pyi) pairs of a dry run, runs the real merge_tree, lists again."""
  from pytype.tools.merge_pyi import merge_pyi
  w = os.path.realpath(w)
  base = build(spec, w)
  pre = listing(w)
  out = {"w": w, "pre": pre}
  old = os.getcwd()
  os.chdir(base if spec["cwd"] == "case" else w)
  try:
    out["cwd"] = os.getcwd()
    out["top_real"] = _real(spec["top"]) if spec["top"] else None
    out["P_real"] = _real(spec["P"] or ".")
    # dry run: which (py, pyi) path strings does the loop compute?
    jobs = []
    pu = merge_pyi.path_utils
    saved = (merge_pyi.merge_files, pu.exists)
    try:
      pu.exists = lambda p: True
      def rec(*, py_path, pyi_path, mode, backup=None):
        jobs.append((py_path, pyi_path))
        return False
      merge_pyi.merge_files = rec
      try:
        merge_pyi.merge_tree(py_path=spec["top"], pyi_path=spec["P"], backup=spec["backup"])
        out["jobs"] = jobs
      except Exception as e:  # pylint: disable=broad-except
        out["jobs"] = None
        out["jobs_error"] = repr(e)
    finally:
      merge_pyi.merge_files, pu.exists = saved
    try:
      changed, errors = merge_pyi.merge_tree(py_path=spec["top"], pyi_path=spec["P"], backup=spec["backup"])
      out.update(changed=list(changed), errors=[p for p, _ in errors], raised=None,
                 error_types=[type(e).__name__ for _, e in errors])
      out["changed_real"] = [_real(p) for p in changed]
      out["errors_real"] = [_real(p) for p, _ in errors]
    except Exception as e:  # pylint: disable=broad-except
      out.update(changed=None, errors=None, raised=repr(e))
  finally:
    os.chdir(old)
  out["post"] = listing(w)
  return out


def run_file_real(spec, w):
  """merge_files / main on one (py, pyi) path pair.  code: 0 unchanged, 1 changed, 2 MergeError, 3 other exception,
  -1 returned normally but the flag is not observable (main without -i)."""
  from pytype.tools.merge_pyi import main as merge_main
  from pytype.tools.merge_pyi import merge_pyi
  w = os.path.realpath(w)
  base = build(spec, w)
  pre = listing(w)
  out = {"w": w, "pre": pre}
  old = os.getcwd()
  os.chdir(base if spec["cwd"] == "case" else w)
  buf = io.StringIO()
  mode = {1: merge_pyi.Mode.PRINT, 2: merge_pyi.Mode.DIFF, 3: merge_pyi.Mode.OVERWRITE}[spec["mode"]]
  try:
    out["cwd"] = os.getcwd()
    try:
      with contextlib.redirect_stdout(buf):
        if spec["entry"] == "merge_files":
          ch = merge_pyi.merge_files(py_path=spec["py"], pyi_path=spec["pyi"], mode=mode, backup=spec["backup"])
          code = 1 if ch else 0
        else:
          argv = ["merge-pyi"] + {1: [], 2: ["--diff"], 3: ["-i"]}[spec["mode"]]
          if spec["backup"] is not None:
            argv += ["-b", spec["backup"]]
          merge_main.main(argv + [spec["py"], spec["pyi"]])
          code = -1
      out["stdout"] = buf.getvalue()
      if spec["entry"] == "main" and spec["mode"] == 3:
        yes = "Merged types to %s from %s\n" % (spec["py"], spec["pyi"])
        no = "No new types for %s in %s\n" % (spec["py"], spec["pyi"])
        if out["stdout"] == yes:
          code, out["stdout"] = 1, ""
        elif out["stdout"] == no:
          code, out["stdout"] = 0, ""
    except merge_pyi.MergeError as e:
      code = 2
      out["stdout"] = buf.getvalue()
      out["exc"] = repr(e)[:200]
    except Exception as e:  # pylint: disable=broad-except
      code = 3
      out["stdout"] = buf.getvalue()
      out["exc"] = repr(e)[:200]
  finally:
    os.chdir(old)
  out["code"] = code
  out["post"] = listing(w)
  return out


def get_diff(a, b):
  """merge_pyi._get_diff, restated (difflib is the trusted part)."""
  return "\n".join(difflib.Differ().compare(a.split("\n"), b.split("\n")))


# ---------------------------------------------------------------------------------------------
# generator

DIR_NAMES = ["pkg", "pkg.v1", "my pkg", "sub", ".hid", "b", "x.pyi", "mod.py", "d.e"]
PY_NAMES = ["a.py", "b.py", "my mod.py", "a.b.py", ".hidden.py", "__init__.py", "c.py", "a.py.py", ".py"]
OTHER_NAMES = ["x.pyc", "notes.txt", "mod.py.bak", "README", "a.pyx", "py", "a.pyi.txt", "b.PY"]
BAD_STUB = "def broken(:\n"
BAD_PY = "def broken(:\n  pass\n"
LATIN1 = "# caf\xe9\ndef g(a):\n  return a\n"          # the latin-1 bytes are not utf-8
LATIN1_STUB = "# caf\xe9\ndef g(a: int) -> int: ...\n"
UTF8_PAIR = ("# café ✓\ndef g(a):\n  return a\n", "# ü\ndef g(a: int) -> int: ...\n")
EMPTY_PAIR = ("", "")

LAYOUTS = ["sibling", "sibling", "deep", "deep", "stubs-in-src", "src-in-stubs", "equal"]
BACKUPS = [None, None, "", "bak", "bak", "pyi", "py"]


def _enc(text, style):
  """text -> latin-1-string of the file's bytes under a newline style."""
  if style == "CRLF":
    text = text.replace("\n", "\r\n")
  elif style == "CR":
    text = text.replace("\n", "\r")
  elif style == "MIXED":
    parts = text.split("\n")
    text = "".join(p + ("\r\n" if i % 2 else "\n") for i, p in enumerate(parts[:-1])) + parts[-1]
  return text.encode("utf-8").decode("latin-1")


def _style(r):
  return r.choice(["LF"] * 6 + ["CRLF", "CRLF", "CR", "MIXED"])


class TreeGen:
  """One generated tree.  `pool`: list of (py, pyi) text pairs."""

  def __init__(self, r, pool, max_depth=4, small=False):
    self.r, self.pool, self.small = r, pool, small
    self.max_depth = max_depth
    self.files = {}       # rel path -> ("d", "") | ("f", data)
    self.order = []
    self.py_files = []    # (rel comps below top, pair index or None)
    self.layout = r.choice(LAYOUTS)
    self.top, self.P = {
        "sibling": (["src"], ["stubs"]),
        "deep": (["w", "src"], ["o", "p", "stubs"]),
        "stubs-in-src": (["src"], ["src", "stubs"]),
        "src-in-stubs": (["st", "src"], ["st"]),
        "equal": (["src"], ["src"]),
    }[self.layout]
    self.backup = r.choice(BACKUPS)
    self.hazard = r.random() < 0.25       # undecodable files / a directory named like a stub: the run may raise

  def put(self, comps, kind, data=""):
    rel = "/".join(comps)
    if not rel:
      return False
    # a path is a file or a directory, and its parents are directories
    for i in range(1, len(comps)):
      pre = "/".join(comps[:i])
      if self.files.get(pre, ("d",))[0] != "d":
        return False
    if rel in self.files:
      return False
    if any(k.startswith(rel + "/") for k in self.files) and kind != "d":
      return False
    for i in range(1, len(comps)):
      pre = "/".join(comps[:i])
      if pre not in self.files:
        self.files[pre] = ("d", "")
        self.order.append(pre)
    self.files[rel] = (kind, data)
    self.order.append(rel)
    return True

  def gen_dir(self, rel, depth):
    r = self.r
    self.depth = max(getattr(self, "depth", 0), depth)
    if depth > 0 and r.random() < 0.12:
      self.put(self.top + rel, "d")          # an empty directory
      return
    n_py = r.choice([0, 1, 1, 1, 2, 2, 3][:7 - min(depth, 2)] if not self.small else [1, 1, 2])
    for name in r.sample(PY_NAMES, n_py):
      self.gen_py(rel + [name])
    for name in r.sample(OTHER_NAMES, r.choice([0, 0, 1, 2])):
      self.put(self.top + rel + [name], "f", _enc(r.choice(self.pool)[0], "LF"))
    if depth < self.max_depth:
      n_sub = r.choice([[1, 1, 2, 2], [0, 1, 1, 2], [0, 1, 1], [0, 1]][min(depth, 3)]) if not self.small else (1 if depth < 2 else 0)
      for name in r.sample(DIR_NAMES, n_sub):
        if self.put(self.top + rel + [name], "d"):
          self.gen_dir(rel + [name], depth + 1)

  def up(self, n):
    """The directory n levels above the stub root (None when that leaves the case directory)."""
    return None if n > len(self.P) else self.P[:len(self.P) - n]

  def gen_py(self, rel):
    r = self.r
    k = r.randrange(len(self.pool))
    py, pyi = self.pool[k]
    x = r.random()
    if x < 0.05 and self.hazard:
      data = LATIN1
    elif x < 0.10:
      data = _enc(BAD_PY, "LF")
    else:
      data = _enc(py, _style(r))
    if not self.put(self.top + rel, "f", data):
      return
    self.py_files.append(rel)
    stub = self.P + rel[:-1] + [rel[-1] + "i"]
    x = r.random()
    if x < 0.62:
      self.put(stub, "f", _enc(pyi, _style(r)))
    elif x < 0.70:
      self.put(stub, "f", _enc(BAD_STUB, "LF"))
    elif x < 0.74 and self.hazard:
      self.put(stub, "f", LATIN1_STUB)
    elif x < 0.77 and self.hazard:
      self.put(stub, "d")                      # a directory named like the stub
    elif x < 0.82:
      self.put(stub, "f", _enc(r.choice(self.pool)[1], "LF"))   # a stub of something else
    # decoys at other levels
    name = rel[-1] + "i"
    other = lambda: _enc(r.choice([pyi, self.pool[(k + 1) % len(self.pool)][1], r.choice(self.pool)[1]]), "LF")
    depth = len(rel) - 1
    if depth > 0 and r.random() < 0.6:
      d = self.up(depth)                       # where the swapped relpath looks
      if d is not None:
        self.put(d + [name], "f", other())
    if depth > 0 and r.random() < 0.25:
      self.put(self.P + [name], "f", other())  # inside the stub root, wrong level
    if depth == 0 and r.random() < 0.2:
      self.put(self.P + [r.choice(DIR_NAMES[:4]), name], "f", other())
    if self.top != self.P and r.random() < 0.2:
      self.put(self.top + rel[:-1] + [name], "f", other())      # next to the source
    # backup collisions
    bk = self.backup
    if bk and r.random() < (0.5 if bk in ("py", "pyi") else 0.25):
      tgt = self.top + rel[:-1] + [rel[-1] + "." + bk]
      if r.random() < 0.1 and self.hazard:
        self.put(tgt, "d")
      elif self.put(tgt, "f", _enc(r.choice(self.pool)[0 if bk != "pyi" else 1], "LF")):
        if bk == "py":
          self.py_files.append(rel[:-1] + [rel[-1] + ".py"])
          if r.random() < 0.7:
            self.put(self.P + rel[:-1] + [rel[-1] + ".pyi"], "f", _enc(r.choice(self.pool)[1], "LF"))
    if bk == "pyi" and r.random() < 0.4:
      # a.py.py exists: a.py's backup a.py.pyi is then its stub (when stubs sit next to the sources)
      self.put(self.top + rel[:-1] + [rel[-1] + ".py"], "f", _enc(r.choice(self.pool)[0], "LF"))

  def generate(self):
    r = self.r
    self.put(self.top, "d")
    self.put(self.P, "d")
    self.put(["sub"], "d")
    self.gen_dir([], 0)
    # extras: stubs without a source
    for _ in range(r.choice([0, 1, 2])):
      self.put(self.P + r.choice([[], ["pkg"], ["sub"]]) + [r.choice(["zz.pyi", "a.pyi", "only stub.pyi"])], "f",
               _enc(r.choice(self.pool)[1], "LF"))
    order = list(self.order)
    # creation order decides the listing order on some file systems: permute, parents first
    keyed = [(r.random(), p) for p in order]
    keyed.sort()
    done, out = set(), []
    def emit(p):
      if p in done:
        return
      if "/" in p:
        emit(p.rsplit("/", 1)[0])
      done.add(p)
      out.append(p)
    for _, p in keyed:
      emit(p)
    return [[p, self.files[p][0], self.files[p][1]] for p in out]


def spell(r, target, cwd_mode, case_dir, w, top_dirs, plain=False):
  """One spelling of the directory `target` (components below the case directory) as seen from the working directory."""
  comps = (list(target) if cwd_mode == "case" else [case_dir] + list(target))
  cwd_abs = os.path.join(w, case_dir) if cwd_mode == "case" else w
  cwd_name = os.path.basename(cwd_abs)
  absolute = "/".join([cwd_abs] + comps)
  if not comps:
    forms = [".", ".", "./", "", absolute, "../" + cwd_name, "./."]
    return "." if plain else r.choice(forms)
  s = "/".join(comps)
  if plain:
    return s
  sib = case_dir if cwd_mode == "parent" else r.choice(top_dirs)
  forms = [s, s, s, "./" + s, s + "/", s + "//", sib + "/../" + s, "../" + cwd_name + "/" + s, absolute, absolute + "/",
           "//" + absolute.lstrip("/"), "///" + absolute.lstrip("/"), s.replace("/", "//", 1), s.replace("/", "/./", 1),
           s + "/."]
  return r.choice(forms)


def gen_tree_case(r, pool, w_hint, small=False):
  """w_hint is only used for the absolute spellings: the scratch directory the case will be built in."""
  g = TreeGen(r, pool, max_depth=r.choice([1, 2, 3, 4]) if not small else 2, small=small)
  files = g.generate()
  case_dir = r.choice(["c", "c", "case dir", "c.d"])
  cwd_mode = r.choice(["case", "case", "parent"])
  top_dirs = sorted({f[0].split("/")[0] for f in files if f[1] == "d"})
  spec = {"case_dir": case_dir, "cwd": cwd_mode, "files": files, "backup": g.backup, "layout": g.layout,
          "src_depth": g.depth}
  plain = r.random() < 0.3
  spec["top"] = spell(r, g.top, cwd_mode, case_dir, w_hint, top_dirs, plain)
  spec["P"] = spell(r, g.P, cwd_mode, case_dir, w_hint, top_dirs, plain)
  x = r.random()
  if x < 0.06 and cwd_mode == "case":
    spec["top"] = r.choice([".", "./", ""])        # the whole case directory / nothing
  elif x < 0.10:
    spec["P"] = r.choice(["", "."])
  spec["_top"], spec["_P"] = g.top, g.P
  return spec


def gen_file_case(r, pool, w_hint):
  spec = gen_tree_case(r, pool, w_hint, small=True)
  top, P = spec.pop("_top"), spec.pop("_P")
  files = spec["files"]
  pys = [f[0] for f in files if f[1] == "f" and f[0].endswith(".py")]
  stubs = [f[0] for f in files if f[0].endswith(".pyi")]
  kinds = {f[0]: f[1] for f in files}
  def say(rel):
    comps = rel.split("/")
    d = spell(r, comps[:-1], spec["cwd"], spec["case_dir"], w_hint, sorted({f[0].split("/")[0] for f in files if f[1] == "d"}),
              plain=r.random() < 0.5)
    if d in ("", "."):
      return comps[-1] if d == "" or r.random() < 0.5 else "./" + comps[-1]
    return d + ("" if d.endswith("/") else "/") + comps[-1]
  none_py = "/".join(top + ["none.py"])
  py = r.choice(pys) if pys else none_py
  x = r.random()
  want = "/".join(P + py.split("/")[len(top):]) + "i" if py.startswith("/".join(top) + "/") else None
  if want in kinds and x < 0.75:
    pyi = want
  elif stubs and x < 0.9:
    pyi = r.choice(stubs)
  else:
    pyi = r.choice(["/".join(P + ["none.pyi"]), "sub", py])
  y = r.random()
  if y < 0.05:
    py = none_py                         # does not exist
  elif y < 0.08:
    py = "sub"                           # a directory
  spec["py"], spec["pyi"] = say(py), say(pyi)
  spec["mode"] = r.choice([1, 2, 3, 3])
  spec["entry"] = r.choice(["merge_files", "main"])
  if spec["mode"] != 3:
    spec["backup"] = None if spec["entry"] == "main" else r.choice([None, "bak"])
  del spec["top"], spec["P"]
  return spec


PATH_COMPS = ["", ".", "..", "a", "b c", "x.y"]


def gen_path(r):
  n = r.choice([0, 1, 1, 2, 2, 3, 3, 4, 5, 6])
  k = r.choice([0, 0, 0, 1, 1, 2, 3])
  return "/" * k + "/".join(r.choice(PATH_COMPS) for _ in range(n)) if n else "/" * k


# ---------------------------------------------------------------------------------------------
# the direct oracle on a tree run (independent of the model): tree result == per-file merge_sources with the stub at the
# same relative path; backup == original bytes iff changed; untouched files identical; no other files.

def tree_oracle(spec, real, merged):
  """merged(py_text, pyi_text) -> text | None (MergeError).  Returns (applicable, [(kind, what, py_text, pyi_text, got)])."""
  if real["raised"] is not None:
    return False, []
  w = tuple(abs_comps(real["w"]))
  pre, post = flatten(real["pre"], w), flatten(real["post"], w)
  bk = spec["backup"] or None
  top = real["top_real"]
  expect = dict(pre)
  exp_changed, exp_errors = set(), set()
  per_file = {}
  if top is not None and pre.get(top, b"") is None:
    for loc in sorted(pre):
      if pre[loc] is None or loc[:len(top)] != top or len(loc) == len(top) or not loc[-1].endswith(".py"):
        continue
      rel = loc[len(top):]
      stub = real["P_real"] + rel[:-1] + (rel[-1] + "i",)
      if stub not in pre:
        continue
      if pre[stub] is None:
        return False, []            # a directory named like the stub: the run must raise
      p, s = decode_text(pre[loc]), decode_text(pre[stub])
      if p is None or s is None:
        return False, []
      m = merged(p, s)
      per_file[loc] = (p, s, m)
      if m is None:
        exp_errors.add(loc)
      elif m != p:
        exp_changed.add(loc)
        expect[loc] = m.encode("utf-8")
        if bk:
          tgt = loc[:-1] + (loc[-1] + "." + bk,)
          if tgt[-1].endswith((".py", ".pyi")) or pre.get(tgt, b"") is None:
            return False, []        # the backup is a file the walk may read later (order matters) / lands on a directory
          expect[tgt] = pre[loc]
  out = []
  for loc in sorted(set(expect) | set(post)):
    if expect.get(loc, "absent") != post.get(loc, "absent"):
      path = "/" + "/".join(loc)
      if loc in per_file:
        p, s, m = per_file[loc]
        got = post.get(loc)
        what = "%s: merge_tree left %s, merge_sources(py, its own stub) gives %s" % (
            path, "the file untouched" if got == pre[loc] else "another text", "MergeError" if m is None else "a changed text" if m != p else "the same text")
        out.append(("ftree-file-differs-from-merge_sources", what, p, s, decode_text(got) if got is not None else None))
      elif loc in pre and loc in post:
        out.append(("ftree-untouched-file-modified", "%s is not a merged source or its backup, but its bytes changed" % path, None, None, None))
      elif loc in post:
        out.append(("ftree-file-created", "%s was created (not an expected backup)" % path, None, None, None))
      else:
        out.append(("ftree-file-missing", "%s is missing (an expected backup?)" % path, None, None, None))
  if set(real["changed_real"]) != exp_changed:
    out.append(("ftree-changed-list-wrong", "changed_files %s, expected %s" % (sorted(real["changed_real"]), sorted(exp_changed)), None, None, None))
  if set(real["errors_real"]) != exp_errors:
    out.append(("ftree-error-list-wrong", "errors %s, expected %s" % (sorted(real["errors_real"]), sorted(exp_errors)), None, None, None))
  return True, out


# ---------------------------------------------------------------------------------------------
# the correspondence legs

def _merge_pair(pair):
  from pytype.tools.merge_pyi import merge_pyi
  try:
    return pair, merge_pyi.merge_sources(py=pair[0], pyi=pair[1])
  except merge_pyi.MergeError:
    return pair, None


def _worker(job):
  kind, spec, w = job
  try:
    if kind == "tree":
      return run_tree_real(spec, w)
    if kind == "file":
      return run_file_real(spec, w)
    return run_paths_real(spec, w)
  except Exception as e:  # pylint: disable=broad-except
    import traceback
    return {"crash": repr(e) + "\n" + traceback.format_exc()[-1500:]}
  finally:
    shutil.rmtree(w, ignore_errors=True)


def run_paths_real(cases, w):
  """cases: [(cwd kind, p, q)]: join / normpath / relpath / abspath of the real code under a real working directory."""
  from pytype.platform_utils import path_utils
  w = os.path.realpath(w)
  deep = os.path.join(w, "a", "b c")
  os.makedirs(deep, exist_ok=True)
  old = os.getcwd()
  out = []
  cwds = {"deep": deep, "root": "/"}
  try:
    for ck, p, q in cases:
      os.chdir(cwds[ck])
      try:
        rel = path_utils.relpath(p, q)
      except ValueError:
        rel = None
      out.append((path_utils.join(p, q), path_utils.normpath(p), rel, os.path.abspath(p)))
  finally:
    os.chdir(old)
  return {"cwds": cwds, "answers": out}


def tree_texts(spec):
  """The (py text, pyi text) pairs a merge over this tree can ask merge_sources about."""
  pys, pyis = set(), set()
  for rel, kind, data in spec["files"]:
    if kind != "f":
      continue
    t = decode_text(data.encode("latin-1"))
    if t is None:
      continue
    if rel.endswith(".py"):
      pys.add(t)
    if rel.endswith(".pyi"):
      pyis.add(t)
  if spec.get("backup") in ("py", "pyi"):       # a backup can become a source (a.py.py) or a stub (a.py.pyi)
    pyis |= pys
  return [(p, s) for p in sorted(pys) for s in sorted(pyis)]


def file_texts(spec):
  pys, pyis = set(), set()
  bp, bs = spec["py"].split("/")[-1], spec["pyi"].split("/")[-1]
  for rel, kind, data in spec["files"]:
    if kind != "f":
      continue
    t = decode_text(data.encode("latin-1"))
    if t is None:
      continue
    if rel.split("/")[-1] == bp:
      pys.add(t)
    if rel.split("/")[-1] == bs:
      pyis.add(t)
  return [(p, s) for p in sorted(pys) for s in sorted(pyis)]


def tree_case_v(k, spec, real, cache, it):
  cwd = it.loc(abs_comps(real["cwd"]))
  tbl = coq_table([(p, s, cache[(p, s)]) for p, s in tree_texts(spec)], it)
  out = ["Definition tree_%d : tnode := %s." % (k, embed(real["w"], real["pre"], it)),
         "Definition tbl_%d : table := %s." % (k, tbl)]
  args = "%s tree_%d %s %s" % (cwd, k, it.pth(spec["top"]), it.pth(spec["P"]))
  for fixed in ("true", "false"):
    out.append("Eval vm_compute in (run_tree tbl_%d %s %s %s)." % (k, fixed, args, it.backup(spec["backup"])))
  for fixed in ("true", "false"):
    out.append("Eval vm_compute in (run_jobs_only %s %s)." % (fixed, args))
  return "\n".join(out) + "\n"


def file_case_v(k, spec, real, cache, it):
  cwd = it.loc(abs_comps(real["cwd"]))
  tbl = coq_table([(p, s, cache[(p, s)]) for p, s in file_texts(spec)], it)
  return ("Definition tree_%d : tnode := %s.\nDefinition tbl_%d : table := %s.\n"
          "Eval vm_compute in (run_file tbl_%d %s tree_%d %s %s %d %s).\n" % (
              k, embed(real["w"], real["pre"], it), k, tbl, k, cwd, k, it.pth(spec["py"]), it.pth(spec["pyi"]),
              spec["mode"], it.backup(spec["backup"])))


def paths_v(cases, cwds):
  it = Interner()
  defs = ["Definition cwd_%s : loc := %s." % (k, it.loc(abs_comps(v))) for k, v in sorted(cwds.items())]
  body = ";\n".join("(cwd_%s, (%s, %s))" % (ck, it.pth(p), it.pth(q)) for ck, p, q in cases)
  return (it.header() + "\n".join(defs) + "\nDefinition pcases : list (loc * (pth * pth)) := [\n" + body + "].\n"
          "Eval vm_compute in (flat_map (fun c => let '(cwd, (p, q)) := c in ser_pth (join p q) ++ ser_pth (normpath p) ++ "
          "ser_opt ser_pth (relpath cwd p q) ++ ser_pth (abspath cwd p)) pcases).\n")


def _show(b):
  return "absent" if b == "absent" else "directory" if b is None else repr(b[:400])


def state_diffs(real, written):
  """Real final state vs initial state overlaid with the model's written files."""
  w = tuple(abs_comps(real["w"]))
  pre, post = flatten(real["pre"], w), flatten(real["post"], w)
  expect = dict(pre)
  expect.update(written)
  out = []
  for loc in sorted(set(expect) | set(post)):
    e, g = expect.get(loc, "absent"), post.get(loc, "absent")
    if e != g:
      out.append("/%s: model %s, real %s" % ("/".join(loc), _show(e), _show(g)))
  return out


def compare_tree(real, model):
  out = state_diffs(real, model["files"])
  if model["raised"] != (real["raised"] is not None):
    out.append("raised: model %s, real %r" % (model["raised"], real["raised"]))
  if real["raised"] is None and not model["raised"]:
    if model["changed"] != real["changed"]:
      out.append("changed_files: model %r, real %r" % (model["changed"], real["changed"]))
    if model["errors"] != real["errors"]:
      out.append("errors: model %r, real %r" % (model["errors"], real["errors"]))
  return out


def compare_file(spec, real, model):
  out = state_diffs(real, model["files"])
  if real["code"] == -1:
    if model["code"] not in (0, 1):
      out.append("result: model %d, main returned normally" % model["code"])
  elif real["code"] != model["code"]:
    out.append("result: model %d, real %d (%s)" % (model["code"], real["code"], real.get("exc", "")))
  pr = model["printed"]
  want = "" if pr is None else pr[1] + "\n" if pr[0] == "text" else get_diff(pr[1], pr[2]) + "\n"
  if want != real["stdout"]:
    out.append("printed: model %r, real %r" % (want[:300], real["stdout"][:300]))
  return out


def strip_spec(spec):
  return {k: v for k, v in spec.items() if not k.startswith("_")}


def corpus_specs():
  import json
  cdir = os.path.join(common.CORPUS, "C20")
  out = []
  for f in sorted(os.listdir(cdir)) if os.path.isdir(cdir) else []:
    d = json.load(open(os.path.join(cdir, f)))
    if "ftree" in d:
      out.append(("corpus:" + f, d["ftree"]))
  return out


def run_leg(res, pairs, pool, thorough, prop_oracle=None):
  """pairs: (py, pyi) texts to fill the trees with; pool: a multiprocessing pool (forked after pytype was imported)."""
  import time
  t0 = time.time()
  r = common.rng(res.seed, "c20-ftree")
  root = os.path.realpath(os.path.join(FTREES, "%d" % os.getpid()))
  n_tree, n_file, n_path = (400, 600, 6000) if thorough else (40, 60, 600)
  small = [p for p in pairs if len(p[0]) + len(p[1]) < 500]
  cpool = r.sample(small, min(len(small), 24 if thorough else 8))
  if (io.TextIOWrapper(io.BytesIO()).encoding or "").lower().replace("-", "") == "utf8":   # what open() uses
    cpool.append(UTF8_PAIR)
  cpool.append(EMPTY_PAIR)
  res.assumptions.append(
      "file level (coq/Merge/Files.v): no symbolic links and every intermediate component of an argument path exists, so that "
      "the kernel's path resolution is the lexical one; the directory tree keeps its shape during a merge; open()'s text codec "
      "is utf-8 with universal newlines (the run's locale); merge_sources enters as the table of the real function's answers; "
      "the pickled-pytd branch of merge_files is outside the model")
  named = corpus_specs()
  tree_specs = [(n, dict(s)) for n, s in named if "top" in s]
  file_specs = [(n, dict(s)) for n, s in named if "py" in s]
  for i in range(n_tree):
    tree_specs.append(("ftree%d" % i, gen_tree_case(r, cpool, os.path.join(root, "t%d" % len(tree_specs)))))
  for i in range(n_file):
    file_specs.append(("ffile%d" % i, gen_file_case(r, cpool, os.path.join(root, "f%d" % len(file_specs)))))
  for _, s in tree_specs:
    s.pop("_top", None)
    s.pop("_P", None)
  path_cases = [(r.choice(["deep", "deep", "root"]), gen_path(r), gen_path(r)) for _ in range(n_path)]
  path_chunks = [path_cases[i:i + 600] for i in range(0, len(path_cases), 600)]
  jobs = [("tree", s, os.path.join(root, "t%d" % i)) for i, (_, s) in enumerate(tree_specs)]
  jobs += [("file", s, os.path.join(root, "f%d" % i)) for i, (_, s) in enumerate(file_specs)]
  jobs += [("paths", c, os.path.join(root, "p%d" % i)) for i, c in enumerate(path_chunks)]
  need = set()
  for _, s in tree_specs:
    need.update(tree_texts(s))
  for _, s in file_specs:
    need.update(file_texts(s))
  cache = dict(pool.map(_merge_pair, sorted(need), chunksize=8))
  reals = pool.map(_worker, jobs, chunksize=2)
  shutil.rmtree(root, ignore_errors=True)
  t_real = time.time() - t0
  crashes = [(j[0], x["crash"]) for j, x in zip(jobs, reals) if "crash" in x]
  res.obligation("file-level-runs", not crashes, "%d runs crashed; first: %s" % (len(crashes), crashes[0] if crashes else ""))
  tree_reals = reals[:len(tree_specs)]
  file_reals = reals[len(tree_specs):len(tree_specs) + len(file_specs)]
  path_reals = reals[len(tree_specs) + len(file_specs):]
  # ---- model runs: tree cases in two (thorough: more) files, file cases, paths
  vfiles = []          # (name, body, kind, indices)
  tag = "c20f_%d_" % os.getpid()
  ok_tree = [k for k, x in enumerate(tree_reals) if "crash" not in x]
  per = 25 if thorough else max(1, (len(ok_tree) + 1) // 2)        # quick: two tree files + one file-case file + paths
  for c in range(0, len(ok_tree), per):
    it = Interner()
    idx = ok_tree[c:c + per]
    bodies = [tree_case_v(k, tree_specs[k][1], tree_reals[k], cache, it) for k in idx]
    vfiles.append((tag + "t%d" % c, it.header() + "".join(bodies), "tree", idx))
  ok_file = [k for k, x in enumerate(file_reals) if "crash" not in x]
  perf = 75 if thorough else max(1, len(ok_file))
  for c in range(0, len(ok_file), perf):
    it = Interner()
    idx = ok_file[c:c + perf]
    bodies = [file_case_v(k, file_specs[k][1], file_reals[k], cache, it) for k in idx]
    vfiles.append((tag + "f%d" % c, it.header() + "".join(bodies), "file", idx))
  for c, (chunk, x) in enumerate(zip(path_chunks, path_reals)):
    if "crash" not in x:
      vfiles.append((tag + "p%d" % c, paths_v(chunk, x["cwds"]), "paths", [c]))
  t1 = time.time()
  results = {}
  pending = [(n, b) for n, b, _, _ in vfiles]
  while pending:
    batch, pending = pending[:4], pending[4:]
    results.update(common.run_cases_parallel(batch))
  t_model = time.time() - t1
  logs = []
  tree_model, file_model, path_mism, n_paths = {}, {}, [], 0
  for name, _, kind, idx in vfiles:
    ok, txt = results[name]
    ev = common.parse_coq_eval(txt) if ok else []
    try:
      if kind == "tree":
        if len(ev) != 4 * len(idx):
          raise ValueError("%d answers for %d cases" % (len(ev), len(idx)))
        for j, k in enumerate(idx):
          tree_model[k] = {"true": decode_tree_answer(ev[4 * j]), "false": decode_tree_answer(ev[4 * j + 1]),
                           "jobs_true": decode_jobs_answer(ev[4 * j + 2]), "jobs_false": decode_jobs_answer(ev[4 * j + 3])}
      elif kind == "file":
        if len(ev) != len(idx):
          raise ValueError("%d answers for %d cases" % (len(ev), len(idx)))
        for j, k in enumerate(idx):
          file_model[k] = decode_file_answer(ev[j])
      else:
        if len(ev) != 1:
          raise ValueError("no answer")
        s = Stream(nums_of(ev[0]))
        chunk, x = path_chunks[idx[0]], path_reals[idx[0]]
        for (ck, p, q), real in zip(chunk, x["answers"]):
          got = (s.pth(), s.pth(), s.opt_pth(), s.pth())
          n_paths += 1
          for fn, g, e in zip(("join(p, q)", "normpath(p)", "relpath(p, q)", "abspath(p)"), got, real):
            if g != e:
              path_mism.append("%s with p=%r q=%r cwd=%s: model %r, real %r" % (fn, p, q, x["cwds"][ck], g, e))
        if not s.done():
          raise ValueError("trailing numbers")
    except (ValueError, IndexError) as e:
      logs.append("%s: %s\n%s" % (name, e, txt[-1200:]))
  if logs:
    res.obligation("file-level-model-run", False, "\n".join(logs)[:3000])
  # ---- merge_tree: which variant does the tree under test follow?
  agree = {"true": [], "false": []}
  dist = []
  diffs = {}
  for k in sorted(tree_model):
    m, real = tree_model[k], tree_reals[k]
    d = {v: compare_tree(real, m[v]) for v in ("true", "false")}
    diffs[k] = d
    for v in ("true", "false"):
      if not d[v]:
        agree[v].append(k)
    if m["true"] != m["false"]:
      dist.append(k)
  n = len(tree_model)
  if n and len(agree["true"]) == n:
    variant = "true"
  elif n and len(agree["false"]) == n and dist:
    variant = "false"
  else:
    variant = "true" if len(agree["true"]) >= len(agree["false"]) else "false"
  def merged(p, s):
    if (p, s) not in cache:
      cache[(p, s)] = _merge_pair((p, s))[1]
    return cache[(p, s)]
  n_files = lambda spec: sum(1 for f in spec["files"] if f[1] == "f")
  oracle_runs = {}
  def direct(k):
    if k not in oracle_runs:
      oracle_runs[k] = tree_oracle(tree_specs[k][1], tree_reals[k], merged)
    return oracle_runs[k]
  def report(k, fp, head):
    """Violation with the tree as replay, if the direct oracle (independent of the model) fails on case k."""
    app, fs = direct(k)
    if not fs:
      return False
    kind, what, p, s, got = fs[0]
    extra = ""
    if prop_oracle is not None and p is not None and got is not None and merged(p, s) is not None:
      try:
        ks = sorted({f.kind for f in prop_oracle(p, s, got)} - {f.kind for f in prop_oracle(p, s, merged(p, s))})
        if ks:
          extra = "; the file as left violates the property w.r.t. its own stub where merge_sources' output does not: %s" % ks
      except Exception as e:  # pylint: disable=broad-except
        extra = "; (property oracle on the file: %r)" % e
    spec = dict(strip_spec(tree_specs[k][1]), w=tree_reals[k]["w"])
    res.violation(fp, "%s %s [%s; merge_tree(py_path=%r, pyi_path=%r, backup=%r), %d files]%s" % (
        head, what, kind, spec["top"], spec["P"], spec["backup"], n_files(spec), extra),
                  {"ftree": spec, "kind": kind, "py": p or "", "pyi": s or "", "case": tree_specs[k][0]})
    return True
  tree_ok = n > 0 and len(agree[variant]) == n and not [k for k, x in enumerate(tree_reals) if "crash" in x]
  detail = "%d tree cases, all follow the model with fixed=%s" % (n, variant)
  if tree_ok and variant == "false":
    tree_ok = False
    detail = ("all %d tree cases follow the model of merge_tree BEFORE b7143da (rel = relpath(py_path, root)): %d cases tell "
              "the two apart" % (n, len(dist)))
    for k in sorted(dist, key=lambda k: n_files(tree_specs[k][1])):
      if report(k, "merge-tree-stub-dir-relpath-swapped",
                "merge_tree looks for the stubs of a sub-directory above the stub root:"):
        break
  elif not tree_ok:
    bad = [k for k in sorted(tree_model) if diffs[k][variant]]
    k = bad[0] if bad else None
    if k is not None:
      spec = strip_spec(tree_specs[k][1])
      detail = ("%d of %d tree cases disagree with the model (fixed=true agrees on %d, fixed=false on %d). First: %s cwd=%s "
                "merge_tree(py_path=%r, pyi_path=%r, backup=%r): %s | against the other variant: %s | files: %s" % (
                    len(bad), n, len(agree["true"]), len(agree["false"]), tree_specs[k][0], tree_reals[k]["cwd"], spec["top"],
                    spec["P"], spec["backup"], "; ".join(diffs[k][variant][:6]),
                    "; ".join(diffs[k]["false" if variant == "true" else "true"][:3]),
                    [(f[0], f[1]) for f in spec["files"]]))
    n_rep = 0
    for k in sorted(bad, key=lambda k: n_files(tree_specs[k][1])):
      if n_rep < 2 and report(k, "merge-tree-differs-from-per-file-merge", "merge_tree over a directory tree:"):
        n_rep += 1
  # the direct oracle runs on every case anyway (cheap: the table is cached)
  n_app, direct_bad = 0, []
  for k in sorted(tree_model):
    app, fs = direct(k)
    n_app += bool(app)
    if fs:
      direct_bad.append(k)
  if direct_bad and tree_ok:
    for k in sorted(direct_bad, key=lambda k: n_files(tree_specs[k][1]))[:2]:
      report(k, "merge-tree-differs-from-per-file-merge", "merge_tree over a directory tree:")
  res.obligation("correspondence:merge_tree model = real file system", tree_ok, detail)
  res.obligation("correspondence:tree-variants-distinguished", len(dist) > 0,
                 "%d of %d tree cases tell merge_tree before / after b7143da apart" % (len(dist), n))
  res.obligation("oracle:merge_tree = per-file merge_sources at the same relative path (generated trees)", not direct_bad,
                 "%d of %d applicable cases fail; first: %s" % (len(direct_bad), n_app,
                                                               direct(direct_bad[0])[1][0][:2] if direct_bad else ""))
  # ---- jobs (os.walk enumeration + the path arithmetic of the loop), under the variant followed
  jobs_mism = []
  for k in sorted(tree_model):
    real = tree_reals[k]
    mj = tree_model[k]["jobs_" + variant]
    if real["jobs"] is None or [tuple(j) for j in real["jobs"]] != mj:
      spec = tree_specs[k][1]
      jobs_mism.append("%s merge_tree(py_path=%r, pyi_path=%r) cwd=%s: model %r, real %r %s" % (
          tree_specs[k][0], spec["top"], spec["P"], real["cwd"], mj[:6], (real["jobs"] or [])[:6], real.get("jobs_error", "")))
  n_jobs = sum(len(tree_model[k]["jobs_true"]) for k in tree_model)
  res.obligation("correspondence:paths", not path_mism and not jobs_mism and n_paths > 0 and bool(tree_model),
                 "%d path cases (join, normpath, relpath, abspath), %d mismatches; %d (py, pyi) jobs of %d trees, %d trees mismatch; "
                 "first: %s" % (n_paths, len(path_mism), n_jobs, len(tree_model), len(jobs_mism), (path_mism + jobs_mism + [""])[0]))
  # ---- merge_files / main
  file_bad = []
  mode_hist = {}
  for k in sorted(file_model):
    spec, real = file_specs[k][1], file_reals[k]
    d = compare_file(spec, real, file_model[k])
    key = "%s:%s:%s" % (spec["entry"], {1: "PRINT", 2: "DIFF", 3: "OVERWRITE"}[spec["mode"]],
                        {0: "unchanged", 1: "changed", 2: "MergeError", 3: "raised"}[file_model[k]["code"]])
    mode_hist[key] = mode_hist.get(key, 0) + 1
    if d:
      file_bad.append((k, d))
  fdetail = "%d file cases" % len(file_model)
  if file_bad:
    k, d = file_bad[0]
    spec = strip_spec(file_specs[k][1])
    fdetail = "%d of %d file cases disagree. First: %s cwd=%s %s(py=%r, pyi=%r, mode=%d, backup=%r): %s | files: %s" % (
        len(file_bad), len(file_model), file_specs[k][0], file_reals[k]["cwd"], spec["entry"], spec["py"], spec["pyi"],
        spec["mode"], spec["backup"], "; ".join(d[:6]), [(f[0], f[1]) for f in spec["files"]])
  res.obligation("correspondence:merge_files model", not file_bad and bool(file_model) and len(file_model) == len(file_specs), fdetail)
  # ---- statistics
  depth_hist, layouts, raised, changed_n, nontrivial = {}, {}, 0, 0, 0
  for k in sorted(tree_model):
    spec, real = tree_specs[k][1], tree_reals[k]
    dp = spec.get("src_depth", depth_of(real["pre"]) - 2)     # directory levels below the source root
    depth_hist[dp] = depth_hist.get(dp, 0) + 1
    layouts[spec.get("layout", "corpus")] = layouts.get(spec.get("layout", "corpus"), 0) + 1
    raised += real["raised"] is not None
    changed_n += len(real["changed"] or [])
    nt = bool(real["changed"]) or k in dist
    nontrivial += nt
    res.count(("ftree", repr(spec["files"]), spec["top"], spec["P"], spec["backup"], spec["cwd"]) if nt else None)
  for k in sorted(file_model):
    spec = file_specs[k][1]
    res.count(("ffile", repr(spec["files"]), spec["py"], spec["pyi"], spec["mode"], spec["backup"], spec["entry"])
              if file_model[k]["code"] == 1 else None)
  res.count(None, n_paths)
  if dist:
    k = min(dist, key=lambda k: n_files(tree_specs[k][1]))
    spec = tree_specs[k][1]
    res.sample({"merge_tree": {"py_path": spec["top"], "pyi_path": spec["P"], "backup": spec["backup"], "cwd": spec["cwd"],
                               "entries": [f[0] + ("/" if f[1] == "d" else "") for f in spec["files"]],
                               "changed_files": tree_reals[k]["changed"],
                               "pre-b7143da model would change": tree_model[k]["false"]["changed"]}})
  res.extra["file_level_correspondence"] = {
      "tree_cases": n, "files_in_trees": sum(n_files(tree_specs[k][1]) for k in tree_model),
      "depth_histogram": {str(k): v for k, v in sorted(depth_hist.items())}, "layouts": layouts,
      "distinguishing_cases": len(dist), "cases_raised": raised, "files_changed": changed_n, "nontrivial_tree_cases": nontrivial,
      "agree_fixed_true": len(agree["true"]), "agree_fixed_false": len(agree["false"]), "variant_followed": "fixed=" + variant,
      "direct_oracle_applicable": n_app, "jobs_compared": n_jobs,
      "file_cases": len(file_model), "file_case_histogram": dict(sorted(mode_hist.items())),
      "path_cases": n_paths, "table_size": len(cache), "v_files": len(vfiles), "v_bytes": sum(len(v[1]) for v in vfiles),
      "seconds_real_runs": round(t_real, 1), "seconds_model": round(t_model, 1), "seconds": round(time.time() - t0, 1)}


def replay_ftree(d, prop_oracle=None):
  """Rebuilds the stored tree, re-runs merge_tree and the direct oracle."""
  spec = dict(d["ftree"])
  new_w = os.path.realpath(os.path.join(FTREES, "replay"))
  old_w = spec.pop("w", None)
  if old_w and old_w != new_w:
    for key in ("top", "P"):
      spec[key] = spec[key].replace(old_w, new_w).replace(old_w.lstrip("/"), new_w.lstrip("/"))
  real = run_tree_real(spec, new_w)
  shutil.rmtree(new_w, ignore_errors=True)
  print("---- tree (cwd = %s)" % real["cwd"])
  for rel, kind, data in spec["files"]:
    print("  %s%s" % (rel, "/" if kind == "d" else "  (%d bytes)" % len(data)))
  print("---- merge_tree(py_path=%r, pyi_path=%r, backup=%r)" % (spec["top"], spec["P"], spec["backup"]))
  print("changed_files = %r\nerrors = %r\nraised = %r" % (real["changed"], real["errors"], real["raised"]))
  app, fs = tree_oracle(spec, real, lambda p, s: _merge_pair((p, s))[1])
  if not app:
    print("---- the per-file oracle does not apply (exception escaped / backup collision)")
  for kind, what, p, s, got in fs:
    print("FINDING %s: %s" % (kind, what))
    if p is not None:
      print("---- py\n%s---- its stub\n%s---- the file after merge_tree\n%s---- merge_sources(py, stub)\n%s" % (
          p, s, got, _merge_pair((p, s))[1]))
  return 1 if fs else 0
