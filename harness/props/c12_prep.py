"""C12, preparation leg: SerializeAst's steps (ClearClassPointers, CanonicalOrderingVisitor, ClearLookupCache,
CollectDependencies, SerializableAst.__post_init__) against the model of coq/Serial/Prepare.v, plus a direct oracle
for each step on the real objects that uses neither the model nor the visitors under test."""
import msgspec

import c12_gen

SORTED_FIELDS = {
    "TypeDeclUnit": ("constants", "type_params", "functions", "classes", "aliases"),
    "Class": ("methods", "decorators", "classes", "slots"),
    "Signature": ("template", "exceptions"),
    "UnionType": ("type_list",),
}


def walk(o):
  """Pre-order over struct fields and tuples; never through ClassType.cls, never into dicts."""
  if isinstance(o, tuple):
    for x in o:
      yield from walk(x)
  elif isinstance(o, msgspec.Struct):
    yield o
    if type(o).__name__ == "ClassType":
      return
    for f in o.__struct_fields__:
      if f != "_name2item":
        yield from walk(getattr(o, f))


def model_input(env, ast):
  """The unit the modelled part of SerializeAst starts from: RenameModuleVisitor / UndoModuleAliasesVisitor are
  applied by the real code (outside the model)."""
  name = ast.name
  if name.endswith(".__init__"):
    ast = ast.Visit(env.visitors.RenameModuleVisitor(name, name.rsplit(".__init__", 1)[0]))
  return ast.Visit(env.serialize_ast.UndoModuleAliasesVisitor())


def expected_deps(u):
  """Independent of visitors.CollectDependencies: module -> set of base names, for normal and late references."""
  deps, late = {}, {}
  def add(name, d):
    mod, dot, base = name.rpartition(".")
    if dot and mod:
      d.setdefault(mod, set()).add(base)
  for n in walk(u):
    t = type(n).__name__
    if t in ("NamedType", "ClassType"):
      add(n.name, deps)
    elif t == "LateType":
      add(n.name, late)
    elif t == "Module":
      if not n.name.endswith("." + n.module_name):
        add(n.module_name, deps)
  return sorted(deps.items()), sorted(late.items())


def decl_names(u):
  """What must survive re-ordering: the multiset of declaration names per scope and field."""
  out = []
  for n in walk(u):
    t = type(n).__name__
    if t in ("TypeDeclUnit", "Class"):
      for f in ("constants", "type_params", "functions", "methods", "classes", "aliases", "decorators"):
        if hasattr(n, f):
          out.append((t, n.name, f, sorted(str(getattr(x, "name", x)) for x in getattr(n, f))))
  return sorted(out)


def snapshot(env, ast):
  """Taken BEFORE SerializeAst (which clears the class pointers of `ast` in place)."""
  u = model_input(env, ast)
  toks = c12_gen.value_tokens(u, cls_ref={}, drop_cache=True)
  strs = sorted({t for t in toks if t[0] == "s"})
  table = []
  for t in strs:
    s = bytes.fromhex(t[1:]).decode("utf-8")
    table += [t, c12_gen.hexs(repr(s))]
  return {"tokens": toks, "n_strs": len(strs), "table": table, "deps": expected_deps(u), "names": decl_names(u),
          "n_pointers": sum(1 for n in walk(u) if type(n).__name__ == "ClassType" and n.cls is not None)}


def preserves_constants(cls):
  return (any(d.name in ("attr.s", "dataclasses.dataclass") for d in cls.decorators) or
          any(b.name in ("collections.namedtuple", "typing.NamedTuple") for b in cls.bases))


def _show(x):
  if isinstance(x, msgspec.Struct) and "name" in x.__struct_fields__:
    return x.name
  return repr(x)[:120]


def order_failure(ast):
  """None, or the first field CanonicalOrderingVisitor sorts that is not non-decreasing under the real Node.__lt__
  of the nodes as they are NOW (for a SerializeAst result or a decoded AST: with cleared class pointers)."""
  for n in walk(ast):
    t = type(n).__name__
    fields = SORTED_FIELDS.get(t, ())
    if t == "Class" and not preserves_constants(n):
      fields = fields + ("constants",)
    for f in fields:
      items = getattr(n, f)
      if items is None:
        continue
      for a, b in zip(items, items[1:]):
        if b < a:
          return "%s.%s of %s not in canonical order (%s before %s)" % (
              t, f, getattr(n, "name", "") or "<%s>" % t, _show(a), _show(b))
  return None


def oracle(env, snap, sa):
  """None, or what is wrong with the SerializableAst that SerializeAst returned."""
  cts = []
  for n in walk(sa.ast):
    t = type(n).__name__
    if t == "ClassType":
      cts.append(n)
      if n.cls is not None:
        return "prepare: class pointer of ClassType(%s) survives SerializeAst" % n.name
    if t in ("Class", "TypeDeclUnit") and n._name2item:  # pylint: disable=protected-access
      return "prepare: lookup cache of %s %s not cleared" % (t, n.name)
  bad = order_failure(sa.ast)
  if bad:
    return "prepare: " + bad
  if decl_names(sa.ast) != snap["names"]:
    return "prepare: the declarations of some scope changed (names before/after differ)"
  deps, late = snap["deps"]
  if [(m, set(s)) for m, s in sa.dependencies] != deps:
    return "prepare: dependencies differ from the module-qualified names in the AST"
  if [(m, set(s)) for m, s in sa.late_dependencies] != late:
    return "prepare: late_dependencies differ from the LateType names in the AST"
  got = sa.class_type_nodes
  if got is None or len(got) != len(cts) or any(a is not b for a, b in zip(got, cts)):
    return "prepare: class_type_nodes is not the list of the AST's ClassType nodes"
  return None


def enum_commands(env):
  """str()/repr() of every enum member a pytd node can hold, as CPython prints them."""
  cmds = []
  p = env.pytd
  for e in (p.ParameterKind, p.MethodKind):
    for m in e:
      cmds.append(["N", c12_gen.hexs(e.__name__), c12_gen.hexs(m.value), c12_gen.hexs(str(m)), c12_gen.hexs(repr(m))])
  for v in range(16):
    m = p.MethodFlag(v)
    cmds.append(["M", c12_gen.hexs("MethodFlag"), "I%d" % v, c12_gen.hexs(str(m)), c12_gen.hexs(repr(m))])
  return cmds


def real_tables(env):
  vs = [env.visitors.ClearClassPointers(), env.visitors.CollectDependencies(), env.serialize_ast.ClearLookupCache(),
        env.pytd_visitors.CanonicalOrderingVisitor()]
  return [",".join(sorted(v.visit_class_names)) for v in vs]
