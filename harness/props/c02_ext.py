"""C02 extension legs: (c) argument-site binding glue, (d) assignment-site store glue.
(legs (a) structural protocols and (b) Literal live in c02_proto.py / c02_lit.py.)

Every leg has the same three-way comparison as the main check:
  real pytype on generated programs  vs  the Coq model (Match/ArgSite.v, Match/Store.v; correspondence)
                                     vs  a direct oracle on CPython (inspect.Signature.bind / symtable + PEP 526
                                         declared type + run-time membership of the value; the property itself).
Leg (c) is TWO-VARIANT: Match/ArgSite.v models Signature.iter_args before and after
fixes/C02-iter-args-keyword-binding.patch (iter_args false / true); probe_variant() asks the tree under test which
one it implements (three probe calls that must agree), the correspondence runs against that variant, the three
argument-site findings are reported only on the old variant, and on a fixed tree any disagreement with the
binding oracle is unexplained (a regression of the fix is a VIOLATION).
A disagreement with the oracle is either one of the NAMED deviations the Coq development proves real
(fingerprints below) or a VIOLATION with a concrete replay (a self-contained source + line)."""
import inspect
import re
import symtable

import c02_gen as G

# ------------------------------------------------------------------------------------------------
# scalars shared by both legs

ANN = ["int", "str", "float", "bool"]                      # annotation ids 0..3
VALS = [("int", "1"), ("str", '"s"'), ("float", "1.5"), ("bool", "True"), ("bytes", 'b"b"')]
_MEMBER = {"int": {"int", "bool"}, "str": {"str"}, "float": {"float", "int", "bool"}, "bool": {"bool"}}


def member(val_kind, ann):
  """PEP 484 membership of a scalar constant in a scalar annotation (int -> float promotion, bool <: int)."""
  return val_kind in _MEMBER[ann]


def rt_member(value, ann):
  """The same on the run-time value (independent of the generator's bookkeeping)."""
  t = {"int": int, "str": str, "float": (float, int), "bool": bool}[ann]
  return isinstance(value, t)


def conforming_val(r, ann):
  return r.choice([v for v in VALS if member(v[0], ann)])


def nonconforming_val(r, ann):
  return r.choice([v for v in VALS if not member(v[0], ann)])


def pick_val(r, ann):
  if ann is None:
    return r.choice(VALS)
  return conforming_val(r, ann) if r.random() < 0.55 else nonconforming_val(r, ann)


# ------------------------------------------------------------------------------------------------
# leg (c): argument site

def gen_sig(r):
  """A random signature.  Returns dict(posonly, params, varargs, kwonly, kwargs, defaults, ann)."""
  names = ["a", "b", "c", "d", "k", "j", "m"]
  r.shuffle(names)
  n_po = r.choice([0, 0, 0, 1])
  n_pk = r.choice([0, 1, 1, 2])
  n_ko = r.choice([0, 1, 1, 2])
  params = [names.pop() for _ in range(n_po + n_pk)]
  kwonly = [names.pop() for _ in range(n_ko)]
  varargs = r.choice([None, None, "args", "rest"])
  kwargs = r.choice([None, None, "kw", "opts"])
  if kwonly and varargs is None and r.random() < 0.5:
    pass                                   # bare * separator
  ann = {}
  for n in params + kwonly + [x for x in (varargs, kwargs) if x]:
    if r.random() < 0.75:
      ann[n] = r.choice(ANN)
  defaults = set()
  # defaults: a suffix of params (CPython rejects a non-default after a default), any subset of kwonly
  if params and r.random() < 0.6:
    defaults.update(params[r.randint(0, len(params) - 1):])
  for n in kwonly:
    if r.random() < 0.4:
      defaults.add(n)
  return {"posonly": n_po, "params": params, "varargs": varargs, "kwonly": kwonly, "kwargs": kwargs,
          "defaults": sorted(defaults), "ann": ann}


def render_sig(s, fname):
  parts = []
  def one(n):
    t = n + (": " + s["ann"][n] if n in s["ann"] else "")
    if n in s["defaults"]:
      # an un-annotated default is "passed by keyword" by vm_utils._check_defaults: keep it inside **kwargs'
      # annotation so that deviation D2 does not fire at the definition (it is exercised by the calls)
      kwa = s["ann"].get(s["kwargs"]) if s["kwargs"] else None
      d = conforming_val(_R0, s["ann"][n])[1] if n in s["ann"] else (conforming_val(_R0, kwa)[1] if kwa else "0")
      t += " = " + d if n in s["ann"] else "=" + d
    return t
  for i, n in enumerate(s["params"]):
    parts.append(one(n))
    if s["posonly"] and i == s["posonly"] - 1:
      parts.append("/")
  if s["varargs"]:
    parts.append("*" + s["varargs"] + (": " + s["ann"][s["varargs"]] if s["varargs"] in s["ann"] else ""))
  elif s["kwonly"]:
    parts.append("*")
  for n in s["kwonly"]:
    parts.append(one(n))
  if s["kwargs"]:
    parts.append("**" + s["kwargs"] + (": " + s["ann"][s["kwargs"]] if s["kwargs"] in s["ann"] else ""))
  return "def %s(%s): ..." % (fname, ", ".join(parts))


class _FixedR:
  """Deterministic 'random' for default values (so that rendering a signature twice gives the same text)."""
  def choice(self, xs):
    return xs[0]
_R0 = _FixedR()


def gen_call(r, s):
  """A call CPython accepts (by construction; re-validated with inspect.bind).  Returns
  dict(pos=[val], named=[(name, val)], star=[val]|None, starstar=[(name, val)]|None): star/starstar are LITERAL
  *(..) / **{..} which Args.simplify expands."""
  params, kwonly = s["params"], s["kwonly"]
  required_pos = [n for n in params if n not in s["defaults"]]
  n_pos_min = 0
  # positional-only parameters without default must be passed positionally
  for i, n in enumerate(params[:s["posonly"]]):
    if n not in s["defaults"]:
      n_pos_min = i + 1
  n_pos = r.randint(n_pos_min, len(params))
  pos = [pick_val(r, s["ann"].get(n)) for n in params[:n_pos]]
  if s["varargs"] and r.random() < 0.5:
    if n_pos == len(params):
      pos += [pick_val(r, s["ann"].get(s["varargs"])) for _ in range(r.randint(1, 2))]
  named = []
  for n in params[max(n_pos, s["posonly"]):]:
    if n not in s["defaults"] or r.random() < 0.5:
      named.append((n, pick_val(r, s["ann"].get(n))))
  for n in params[n_pos:s["posonly"]]:
    pass                                # positional-only with default, left out
  for n in kwonly:
    if n not in s["defaults"] or r.random() < 0.6:
      named.append((n, pick_val(r, s["ann"].get(n))))
  if s["kwargs"]:
    extra = ["z0", "z1"]
    # names that CPython routes into **kwargs although they look like parameters
    extra += params[:s["posonly"]]
    extra += [s["kwargs"]]
    if s["varargs"]:
      extra.append(s["varargs"])
    for n in r.sample(extra, r.choice([0, 1, 1, 2])):
      if n not in [x for x, _ in named]:
        named.append((n, pick_val(r, s["ann"].get(s["kwargs"]))))
  named.sort(key=lambda nv: nv[0])
  star = starstar = None
  if r.random() < 0.12 and pos and len(pos) == n_pos and n_pos >= 1:
    k = r.randint(0, len(pos) - 1)
    pos, star = pos[:k], pos[k:]
  if r.random() < 0.12 and named:
    k = r.randint(0, len(named) - 1)
    named, starstar = named[:k], named[k:]
  return {"pos": pos, "named": named, "star": star, "starstar": starstar}


def render_call(c, fname):
  parts = [v[1] for v in c["pos"]]
  if c["star"] is not None:
    parts.append("*(%s,)" % ", ".join(v[1] for v in c["star"]) if c["star"] else "*()")
  parts += ["%s=%s" % (n, v[1]) for n, v in c["named"]]
  if c["starstar"] is not None:
    parts.append("**{%s}" % ", ".join('"%s": %s' % (n, v[1]) for n, v in c["starstar"]))
  return "%s(%s)" % (fname, ", ".join(parts))


def flat_call(c):
  """After Args.simplify: literal *(..) joins the positionals, literal **{..} the keywords (sorted)."""
  pos = list(c["pos"]) + list(c["star"] or [])
  named = sorted(list(c["named"]) + list(c["starstar"] or []), key=lambda nv: nv[0])
  return pos, named


def cpython_binding(s, c):
  """ORACLE: inspect.Signature.bind on the real function.  Returns list of (value_source_text, ann|None) or None
  when CPython rejects the call."""
  ns = {}
  exec(render_sig(s, "f").replace(": ...", ": pass"), ns)     # pylint: disable=exec-used
  f = ns["f"]
  pos, named = flat_call(c)
  try:
    ba = inspect.signature(f).bind(*[_Tag(i) for i in range(len(pos))],
                                   **{n: _Tag(len(pos) + j) for j, (n, _) in enumerate(named)})
  except TypeError:
    return None
  assoc = {}
  sig = inspect.signature(f)
  for pname, bound in ba.arguments.items():
    p = sig.parameters[pname]
    a = None if p.annotation is inspect.Parameter.empty else p.annotation.__name__
    if p.kind is inspect.Parameter.VAR_POSITIONAL:
      for t in bound:
        assoc[t.i] = a
    elif p.kind is inspect.Parameter.VAR_KEYWORD:
      for t in bound.values():
        assoc[t.i] = a
    else:
      assoc[bound.i] = a
  return [assoc[i] for i in range(len(pos) + len(named))]


class _Tag:
  def __init__(self, i):
    self.i = i


def argsite_cases(r, n):
  out = []
  tries = 0
  while len(out) < n and tries < 50 * n:
    tries += 1
    s = gen_sig(r)
    if not s["ann"]:
      continue
    c = gen_call(r, s)
    b = cpython_binding(s, c)
    if b is None:
      continue
    pos, named = flat_call(c)
    vals = pos + [v for _, v in named]
    want_err = any(a is not None and not rt_member(eval(v[1]), a) for v, a in zip(vals, b))   # pylint: disable=eval-used
    out.append({"sig": s, "call": c, "binding": b, "oracle_err": want_err})
  return out


def _ids(s):
  names = s["params"] + s["kwonly"] + [x for x in (s["varargs"], s["kwargs"]) if x]
  ids = {n: i for i, n in enumerate(names)}
  return ids


def coq_argsite(case):
  s, c = case["sig"], case["call"]
  ids = _ids(s)
  pos, named = flat_call(c)
  for n, _ in named:
    if n not in ids:
      ids[n] = len(ids)
  def opt(x):
    return "Some %d" % ids[x] if x else "None"
  sig = ("{| s_posonly := %d; s_params := [%s]; s_varargs := %s; s_kwonly := [%s]; s_kwargs := %s; "
         "s_defaults := [%s]; s_ann := [%s] |}" % (
             s["posonly"], "; ".join(str(ids[n]) for n in s["params"]), opt(s["varargs"]),
             "; ".join(str(ids[n]) for n in s["kwonly"]), opt(s["kwargs"]),
             "; ".join(str(ids[n]) for n in s["defaults"]),
             "; ".join("(%d, %d)" % (ids[n], ANN.index(a)) for n, a in sorted(s["ann"].items()))))
  call = "{| c_pos := [%s]; c_named := [%s]; c_star := None; c_starstar := None |}" % (
      "; ".join(str(i) for i in range(len(pos))),
      "; ".join("(%d, %d)" % (ids[n], len(pos) + j) for j, (n, _) in enumerate(named)))
  return "(%s, %s)" % (sig, call)


ARG_PRELUDE = """
Definition fcode (f : option (formal nat)) : nat :=
  match f with None => 0 | Some (FElem a) => 1 + 4 * a | Some (FStar a) => 2 + 4 * a | Some (FKw a) => 3 + 4 * a
  | Some (FCrash a) => 4 + 4 * a end.
Definition flat (l : list (nat * option (formal nat))) : list nat := flat_map (fun vf => [fst vf; fcode (snd vf)]) l.
Definition arg_run (sc : sig nat * call nat) : list (list nat) :=
  let s := fst sc in let c := snd sc in
  [ [if wf_sig s && ann_keys_ok nat s then 1 else 0; if kw_named_like_star s c then 1 else 0;
     if kw_unannotated_with_kwargs s c then 1 else 0;
     match bind s c with Some _ => 1 | None => 0 end];
    flat (iter_args false s c);
    match bind s c with Some l => flat l | None => [] end;
    flat (iter_args true s c) ].
"""


ARG_PROBES = [
    # (source, line of the call): before fixes/C02-iter-args-keyword-binding.patch each of these calls is rejected
    # (the third one makes pytype raise AssertionError); the fixed code accepts all three, as CPython's binding says
    ("def f(**kw: int): ...\nf(kw=1)\n", 2),
    ("def f(a, *, k, **kw: int): ...\nf(1, k=\"x\")\n", 2),
    ("def f(*rest, **kw: float): ...\nf(rest=1.5)\n", 2),
]


def probe_variant():
  """Which variant of Signature.iter_args the tree under test implements.  Returns (fixed: bool, consistent: bool,
  detail).  Needs pytype bootstrapped in this process."""
  verdicts = []
  for src, line in ARG_PROBES:
    try:
      errs = G.run_pytype(src)
      verdicts.append("old" if any(n == "wrong-arg-types" and l == line for n, l, _ in errs) else "fixed")
    except AssertionError:
      verdicts.append("old")
    except Exception as e:   # pylint: disable=broad-except
      verdicts.append("raises:" + type(e).__name__)
  fixed = verdicts.count("fixed") * 2 > len(verdicts)
  return fixed, len(set(verdicts)) == 1 and verdicts[0] in ("old", "fixed"), verdicts


def decode_assoc(flat):
  """[v0, code0, v1, code1, ..] -> {value index: (kind, ann)|None}"""
  out = {}
  for i in range(0, len(flat), 2):
    v, code = flat[i], flat[i + 1]
    if code == 0:
      out[v] = None
    else:
      out[v] = (("elem", "star", "kw", "crash")[(code - 1) % 4], ANN[(code - 1) // 4])
  return out


def formal_member(val, f):
  """The matcher's verdict for a scalar constant against a formal (covered by the main leg for scalars; an
  Iterable[..] / Mapping[str, ..] formal never accepts one of the scalar constants used here)."""
  if f is None:
    return True
  kind, a = f
  if kind == "star":           # Iterable[a]: of the scalar constants only bytes is iterable (of ints); str is
    return val[0] == "bytes" and member("int", a)     # rejected for Iterable[str] (noniterable-str)
  if kind != "elem":
    return False
  return member(val[0], a)


# ------------------------------------------------------------------------------------------------
# leg (d): assignment site

def gen_store_case(r):
  """One frame with 1..2 annotated names and a straight-line list of events.  Returns dict(frame, lines, events)
  where events = list of dict(kind, name, ann, val, line_index)."""
  frame = r.choice(["func", "func", "func", "module", "class"])
  ann = r.choice(ANN)
  name = "x"
  capture = None
  glob = False
  if frame == "func":
    capture = r.choice([None, None, "def", "lambda", "defafter", "class"])
  if frame == "module":
    glob = r.random() < 0.35
  events = []
  v0 = pick_val(r, ann)
  bare = capture is None and r.random() < 0.25       # a captured name must be bound before the nested def is built
  events.append({"kind": "ann", "ann": ann, "val": None if bare else v0})
  n_more = r.randint(1, 3)
  for _ in range(n_more):
    k = r.choice(["store", "store", "store", "store", "forstore", "unpack", "del", "reann", "nonlocal"])
    bound = events[-1]["kind"] != "del" and any(e.get("val") is not None for e in events)
    # (a name written through `nonlocal` is a cell: like a captured name it is never deleted, see below)
    if k == "nonlocal" and not (frame == "func" and bound and all(e["kind"] != "del" for e in events)):
      k = "store"
    if k == "reann":
      if r.random() < 0.5:
        k = "store"
      else:
        ann2 = r.choice(ANN)
        events.append({"kind": "ann", "ann": ann2, "val": pick_val(r, ann2)})
        continue
    cur = [e["ann"] for e in events if e["kind"] == "ann"][-1]
    if k == "del":
      # (a captured name is never deleted: pytype analyses the nested body after the frame and reports the name
      # as undefined there)
      if (capture is not None or events[-1]["kind"] == "del" or events[-1].get("val") is None
          or any(e["kind"] == "nonlocal" for e in events)):
        continue
      events.append({"kind": "del"})
      continue
    events.append({"kind": k, "val": pick_val(r, cur)})
  if capture == "defafter":
    while events[-1]["kind"] == "del":        # the late nested def needs the name bound
      events.pop()
  return {"frame": frame, "capture": capture, "global": glob, "events": events, "name": name}


def render_store_case(case, idx):
  """Returns (lines, [line offset of each event within lines])."""
  name = case["name"]
  ind = "" if case["frame"] == "module" else "  "
  lines = []
  where = []
  if case["frame"] == "func":
    lines.append("def h%d():" % idx)
  elif case["frame"] == "class":
    lines.append("class H%d:" % idx)
  vname = name if case["frame"] != "module" else "%s%d" % (name, idx)
  case["vname"] = vname
  def capture_lines():
    c = case["capture"]
    if c in ("def", "defafter"):
      return [ind + "def inner(): return " + vname]
    if c == "lambda":
      return [ind + "lam = lambda: " + vname]
    if c == "class":
      return [ind + "class K:", ind + "  def m(self): return " + vname]
    return []
  placed = False
  for i, e in enumerate(case["events"]):
    if e["kind"] == "ann":
      where.append(len(lines))
      lines.append(ind + "%s: %s%s" % (vname, e["ann"], "" if e["val"] is None else " = " + e["val"][1]))
    elif e["kind"] == "store":
      where.append(len(lines))
      lines.append(ind + "%s = %s" % (vname, e["val"][1]))
    elif e["kind"] == "forstore":
      where.append(len(lines))
      lines.append(ind + "for %s in [%s]: pass" % (vname, e["val"][1]))
    elif e["kind"] == "unpack":
      where.append(len(lines))
      lines.append(ind + "%s, _u = %s, 0" % (vname, e["val"][1]))
    elif e["kind"] == "del":
      where.append(len(lines))
      lines.append(ind + "del " + vname)
    elif e["kind"] == "nonlocal":
      lines.append(ind + "def setter%d():" % i)
      lines.append(ind + "  nonlocal " + vname)
      where.append(len(lines))
      lines.append(ind + "  %s = %s" % (vname, e["val"][1]))
    if i == 0 and case["capture"] in ("def", "lambda", "class"):
      lines += capture_lines()
      placed = True
  if case["capture"] == "defafter" and not placed:
    lines += capture_lines()
  if case["frame"] == "func":
    lines.append(ind + "return 0")
  if case["global"]:
    lines.append("def g%d():" % idx)
    lines.append("  global " + vname)
    lines.append("  pass")
  return lines, where


def store_kind(case, lines):
  """kn for the case's name from CPython's own symbol table (independent of the generator's intent)."""
  src = "\n".join(lines) + "\n"
  top = symtable.symtable(src, "<c02>", "exec")
  if case["frame"] == "module":
    sym = top.lookup(case["vname"])
    return "global" if sym.is_declared_global() else "local"
  tbl = [t for t in top.get_children() if t.get_name().lower().startswith("h")][0]
  sym = tbl.lookup(case["vname"])
  if sym.is_declared_global():
    return "global"
  def free_in(t):
    try:
      if t.lookup(case["vname"]).is_free():
        return True
    except KeyError:
      pass
    return any(free_in(ch) for ch in t.get_children())
  if case["frame"] == "func" and any(free_in(ch) for ch in tbl.get_children()):
    return "cell"
  return "local"


def store_oracle(case):
  """ORACLE (PEP 526 + run-time membership): for every event that stores a value, is an error expected?"""
  declared = None
  out = []
  for e in case["events"]:
    if e["kind"] == "ann":
      declared = e["ann"]
    if e.get("val") is None:
      out.append(None)
    else:
      out.append(declared is not None and not rt_member(eval(e["val"][1]), declared))   # pylint: disable=eval-used
  return out


def coq_store(case, kind):
  evs = []
  for e in case["events"]:
    if e["kind"] == "ann":
      evs.append("EAnn 0 %d %s" % (ANN.index(e["ann"]), "false" if e["val"] is None else "true"))
    elif e["kind"] in ("store", "forstore", "unpack"):
      evs.append("EStore 0")
    elif e["kind"] == "nonlocal":
      evs.append("ENonlocal 0")
    else:
      evs.append("EDel 0")
  k = {"local": "KLocal", "cell": "KCell", "global": "KGlobal"}[kind]
  return "(%s, [%s])" % (k, "; ".join(evs))


STORE_PRELUDE = """
Definition ocode (o : option nat) : nat := match o with None => 0 | Some a => S a end.
Definition store_run (ke : skind * list (ev nat)) : list (list nat) :=
  [ map ocode (checks (fun _ => fst ke) (snd ke)); map ocode (spec (snd ke)) ].
"""


def store_cases(r, n):
  return [gen_store_case(r) for _ in range(n)]


# ------------------------------------------------------------------------------------------------
# programs, Coq file, evaluation

BATCH = 40


def build_programs(arg_cases, st_cases):
  """Returns list of (tag, source, where, parts) with where: {line: (leg, case index, event index|None)} and
  parts: per-case (source, {line: key}) used to isolate a case when pytype itself raises on the batch."""
  progs = []
  for b in range(0, len(arg_cases), BATCH):
    lines, where, parts = [], {}, []
    for i, case in enumerate(arg_cases[b:b + BATCH]):
      lines.append(render_sig(case["sig"], "f%d" % i))
      lines.append(render_call(case["call"], "f%d" % i))
      where[len(lines)] = ("arg", b + i, None)
      case["src"] = lines[-2] + "\n" + lines[-1] + "\n"
      parts.append((case["src"], {2: ("arg", b + i, None)}))
    progs.append(("arg%d" % (b // BATCH), "\n".join(lines) + "\n", where, parts))
  for b in range(0, len(st_cases), BATCH):
    lines, where, parts = [], {}, []
    for i, case in enumerate(st_cases[b:b + BATCH]):
      ls, offs = render_store_case(case, i)
      case["kind"] = store_kind(case, ls)
      case["src"] = "\n".join(ls) + "\n"
      case["src_lines"] = [o + 1 for o in offs]
      for j, o in enumerate(offs):
        where[len(lines) + o + 1] = ("store", b + i, j)
      parts.append((case["src"], {o + 1: ("store", b + i, j) for j, o in enumerate(offs)}))
      lines += ls
    progs.append(("store%d" % (b // BATCH), "\n".join(lines) + "\n", where, parts))
  return progs


def _collect(payload, where, want, src, tag):
  errs = {k: False for k in where.values()}
  unexpected = []
  for name, line, msg in payload:
    if line in where and name == want:
      errs[where[line]] = True
    else:
      unexpected.append((tag, name, line, msg.split("\n")[0][:120], src.split("\n")[line - 1] if line else ""))
  return errs, unexpected


def work(job):
  """Pool worker: (tag, source, where, parts) -> (tag, errs {key: bool | 'crash:<Type>'}, unexpected, fatal|None).
  If pytype raises on the batch, every case is analysed on its own and the raising ones get 'crash:<Type>'."""
  tag, src, where, parts = job
  want = "wrong-arg-types" if tag.startswith("arg") else "annotation-type-mismatch"
  try:
    errs, unexpected = _collect(G.run_pytype(src), where, want, src, tag)
    return (tag, errs, unexpected, None)
  except Exception as e:   # pylint: disable=broad-except
    if "typeshed" in str(e):
      return (tag, {}, [], "typeshed")
  errs, unexpected = {}, []
  for psrc, pwhere in parts:
    try:
      e1, u1 = _collect(G.run_pytype(psrc), pwhere, want, psrc, tag)
      errs.update(e1)
      unexpected += u1
    except Exception as e:   # pylint: disable=broad-except
      for k in pwhere.values():
        errs[k] = "crash:" + type(e).__name__
  return (tag, errs, unexpected, None)


def coq_body(arg_cases, st_cases):
  out = ["From Coq Require Import List Arith Bool.",
         "From PV Require Import Match.ArgSite Match.ArgSiteProofs Match.Store.",
         "Import ListNotations.", ARG_PRELUDE, STORE_PRELUDE]
  for b in range(0, len(arg_cases), 100):
    out.append("Eval vm_compute in (map arg_run [%s])." % ";\n ".join(coq_argsite(c) for c in arg_cases[b:b + 100]))
  for b in range(0, len(st_cases), 100):
    out.append("Eval vm_compute in (map store_run [%s])." % ";\n ".join(
        coq_store(c, c["kind"]) for c in st_cases[b:b + 100]))
  return "\n".join(out) + "\n"


def parse_lll(term):
  """'[[[1; 2]; [3]]; [[..]]]' -> nested python lists of ints (3 levels)."""
  txt = term.replace(";", ",")
  if not re.fullmatch(r"[\[\]\d,\s]*", txt):
    raise ValueError("unexpected Coq output: " + term[:200])
  return eval(txt)   # pylint: disable=eval-used


ARG_FPS = {"d1": "argsite:kwarg-named-like-star-param", "d2": "argsite:kwarg-unannotated-uses-kwargs-annotation"}
STORE_FPS = {"nonlocal": "assign:nonlocal-store-unchecked", "global": "assign:store-global-unchecked"}


def evaluate(res, arg_cases, st_cases, progs, impl, coq_terms, arg_fixed=False):
  """Three-way comparison for both legs; records obligations, counts, violations in res.  arg_fixed: the probed
  variant of Signature.iter_args (Match/ArgSite.v iter_args true / false) the correspondence is run against; the
  named argument-site deviations exist only in the old variant, so on a fixed tree every disagreement with the
  oracle is unexplained (a regression of the fix is a VIOLATION)."""
  errs = {}          # (leg, case, event) -> bool | 'crash:<Type>'
  unexpected = []
  impl_ok = True
  for tag, e1, u1, fatal in impl:
    if fatal == "typeshed":
      continue
    errs.update(e1)
    unexpected += u1
  res.obligation("ext:generated-programs-clean", not unexpected, repr(unexpected[:4]))
  # ---- Coq outputs
  n_arg_terms = (len(arg_cases) + 99) // 100
  arg_out, st_out = [], []
  try:
    for t in coq_terms[:n_arg_terms]:
      arg_out += parse_lll(t)
    for t in coq_terms[n_arg_terms:]:
      st_out += parse_lll(t)
    coq_ok = len(arg_out) == len(arg_cases) and len(st_out) == len(st_cases)
  except Exception as e:   # pylint: disable=broad-except
    coq_ok = False
    res.obligation("model-run:ext", False, repr(e)[:300])
  if not coq_ok:
    res.obligation("model-run:ext(counts)", False, "%d/%d arg, %d/%d store outputs" % (
        len(arg_out), len(arg_cases), len(st_out), len(st_cases)))
  seen = set()
  reported = [0]
  def report(fp, what, replay, known_ok):
    if fp in seen:
      return
    seen.add(fp)
    if not known_ok:
      while fp in res.known:
        fp += ":unlisted"
      if reported[0] >= 3:
        return
      reported[0] += 1
    res.violation(fp, what, replay)
  # ---- leg (c)
  n_corr = n_corr_bad = n_bind_bad = n_unexpl = 0
  hist = {"kwonly_by_keyword": 0, "varargs_extra": 0, "kwargs_extra": 0, "posonly_name_as_keyword": 0,
          "literal_star": 0, "literal_starstar": 0, "oracle_error": 0, "pytype_error": 0, "d1": 0, "d2": 0}
  for i, case in enumerate(arg_cases):
    key = ("arg", i, None)
    if key not in errs:
      continue
    s, c = case["sig"], case["call"]
    pos, named = flat_call(c)
    vals = pos + [v for _, v in named]
    e = errs[key]
    orc = case["oracle_err"]
    hist["oracle_error"] += int(orc)
    hist["pytype_error"] += int(e is True)
    hist["kwonly_by_keyword"] += int(any(n in s["kwonly"] for n, _ in named))
    hist["varargs_extra"] += int(len(pos) > len(s["params"]))
    hist["kwargs_extra"] += int(any(n not in s["params"] + s["kwonly"] for n, _ in named))
    hist["posonly_name_as_keyword"] += int(any(n in s["params"][:s["posonly"]] for n, _ in named))
    hist["literal_star"] += int(c["star"] is not None)
    hist["literal_starstar"] += int(c["starstar"] is not None)
    res.count((render_sig(s, "f"), render_call(c, "f")))
    replay = {"leg": "argsite", "source": case["src"], "line": 2, "error": "wrong-arg-types",
              "expect_error": orc, "binding": case["binding"]}
    names = [n for n, _ in named]
    if coq_ok:
      flags, it_old, bd, it_fixed = arg_out[i]
      it = it_fixed if arg_fixed else it_old
      n_corr += 1
      massoc = decode_assoc(it)
      if any(f is not None and f[0] == "crash" for f in massoc.values()):
        model_err = "crash:AssertionError"
      else:
        model_err = any(not formal_member(v, massoc.get(j)) for j, v in enumerate(vals))
      if not flags[0] or not flags[3]:
        n_bind_bad += 1
        if n_bind_bad <= 2:
          res.obligation("argsite:spec-accepts-what-cpython-accepts", False,
                         "wf/bind flags %r on %s" % (flags, case["src"]))
      else:
        bassoc = decode_assoc(bd)
        got = [None if bassoc.get(j) is None else bassoc[j][1] for j in range(len(vals))]
        if got != case["binding"] or any(f is not None and f[0] != "elem" for f in bassoc.values()):
          n_bind_bad += 1
          if n_bind_bad <= 2:
            res.obligation("argsite:spec-bind-vs-inspect.bind", False, "Coq bind %r, inspect %r on %s" % (
                got, case["binding"], case["src"]))
      if model_err != e:
        n_corr_bad += 1
        if n_corr_bad <= 3:
          res.obligation("correspondence:argsite:%d" % i, False, "model err=%s pytype err=%s on %s" % (
              model_err, e, case["src"]))
      hist["d1"] += flags[1]
      hist["d2"] += flags[2]
    if isinstance(e, str):
      # pytype itself raised.  Named only when the call passes a keyword spelled like the un-annotated *args
      # parameter while **kwargs is annotated (the widen_type assertion, Match/ArgSiteProofs.v crash_w)
      hist["crash"] = hist.get("crash", 0) + 1
      what = "pytype raises %s instead of reporting: %s" % (e.split(":")[1], case["src"].replace("\n", " ; "))
      if (not arg_fixed and e == "crash:AssertionError" and s["varargs"] in names
          and s["varargs"] not in s["ann"] and s["kwargs"] in s["ann"]):
        report("argsite:crash:AssertionError:kwarg-named-like-unannotated-varargs", what, replay, True)
      else:
        n_unexpl += 1
        report("unexplained:argsite:" + e, what, replay, False)
      continue
    if e != orc:
      what = "%s at the argument site: %s" % ("error on a conforming call" if e else "missed violation",
                                                case["src"].replace("\n", " ; "))
      fps = []
      if coq_ok and not arg_fixed:
        flags, it, bd, _ = arg_out[i]
        massoc, bassoc = decode_assoc(it), decode_assoc(bd)
        # explained iff the model reproduces pytype, the binding reproduces the oracle, and every argument whose
        # verdict differs between the two associations is one of the named deviations
        spec_err = any(not formal_member(v, bassoc.get(j)) for j, v in enumerate(vals))
        bad = [j for j in range(len(vals))
               if formal_member(vals[j], massoc.get(j)) != formal_member(vals[j], bassoc.get(j))]
        ok = bool(bad) and model_err == e and spec_err == orc
        for j in bad:
          n = names[j - len(pos)] if j >= len(pos) else None
          if n is None:
            ok = False
          elif n in (s["varargs"], s["kwargs"]) and flags[1]:
            fps.append(ARG_FPS["d1"])
          elif n in s["params"] + s["kwonly"] and n not in s["ann"] and flags[2]:
            fps.append(ARG_FPS["d2"])
          else:
            ok = False
        if not ok:
          fps = []
      if fps:
        for fp in sorted(set(fps)):
          report(fp, what, replay, True)
      else:
        n_unexpl += 1
        report("unexplained:argsite:%s" % ("false-error" if e else "missed"), what, replay, False)
  res.obligation("correspondence:argsite model(iter_args %s)-vs-pytype" % ("fixed" if arg_fixed else "before-fix"),
                 coq_ok and n_corr_bad == 0, "%d of %d call verdicts disagree" % (n_corr_bad, n_corr))
  res.obligation("argsite:Coq bind = inspect.Signature.bind on every generated call", n_bind_bad == 0,
                 "%d differ" % n_bind_bad)
  res.obligation("oracle:argsite unexplained disagreements", n_unexpl == 0, "%d" % n_unexpl)
  # ---- leg (d)
  m_corr = m_corr_bad = m_spec_bad = m_unexpl = 0
  shist = {"frames": {}, "kinds": {}, "events": {}, "capture": {}, "oracle_error": 0, "pytype_error": 0}
  for i, case in enumerate(st_cases):
    if ("store", i, 0) not in errs:
      continue
    orc = store_oracle(case)
    shist["frames"][case["frame"]] = shist["frames"].get(case["frame"], 0) + 1
    shist["kinds"][case["kind"]] = shist["kinds"].get(case["kind"], 0) + 1
    shist["capture"][str(case["capture"])] = shist["capture"].get(str(case["capture"]), 0) + 1
    res.count(case["src"])
    for j, ev in enumerate(case["events"]):
      shist["events"][ev["kind"]] = shist["events"].get(ev["kind"], 0) + 1
      e = errs[("store", i, j)]
      if isinstance(e, str):
        m_unexpl += 1
        report("unexplained:assign:" + e, "pytype raises on " + case["src"],
               {"leg": "store", "source": case["src"], "line": case["src_lines"][j],
                "error": "annotation-type-mismatch", "expect_error": bool(orc[j])}, False)
        continue
      if orc[j] is None:
        if e:
          m_unexpl += 1
          report("unexplained:assign:error-without-store", "error on a statement that stores nothing: " +
                 case["src"], {"leg": "store", "source": case["src"], "line": case["src_lines"][j],
                               "error": "annotation-type-mismatch", "expect_error": False}, False)
        continue
      shist["oracle_error"] += int(orc[j])
      shist["pytype_error"] += int(e)
      replay = {"leg": "store", "source": case["src"], "line": case["src_lines"][j],
                "error": "annotation-type-mismatch", "expect_error": orc[j], "kind": case["kind"]}
      if coq_ok:
        chk, spc = st_out[i]
        m_corr += 1
        ann_m = None if chk[j] == 0 else ANN[chk[j] - 1]
        ann_s = None if spc[j] == 0 else ANN[spc[j] - 1]
        model_err = ann_m is not None and not member(ev["val"][0], ann_m)
        spec_err = ann_s is not None and not member(ev["val"][0], ann_s)
        if spec_err != orc[j]:
          m_spec_bad += 1
          if m_spec_bad <= 2:
            res.obligation("assign:Coq spec vs PEP 526 oracle", False, "event %d of %s" % (j, case["src"]))
        if model_err != e:
          m_corr_bad += 1
          if m_corr_bad <= 3:
            res.obligation("correspondence:assign:%d:%d" % (i, j), False,
                           "model err=%s (checked against %s) pytype err=%s, event %d (line %d) of\n%s" % (
                               model_err, ann_m, e, j, case["src_lines"][j], case["src"]))
      if e != orc[j]:
        what = "%s at an assignment (line %d, %s name): %s" % (
            "error on a conforming value" if e else "missed violation", case["src_lines"][j], case["kind"],
            case["src"].replace("\n", " ; "))
        fp = None
        if not e and orc[j]:
          if ev["kind"] == "nonlocal":
            fp = STORE_FPS["nonlocal"]
          elif case["kind"] == "global" and ev["kind"] != "ann":
            fp = STORE_FPS["global"]
        if fp:
          report(fp, what, replay, True)
        else:
          m_unexpl += 1
          report("unexplained:assign:%s:%s" % (case["kind"], "false-error" if e else "missed"), what, replay, False)
  res.obligation("correspondence:assign model(checks)-vs-pytype", coq_ok and m_corr_bad == 0,
                 "%d of %d store verdicts disagree" % (m_corr_bad, m_corr))
  res.obligation("assign:Coq spec = PEP 526 oracle on every generated store", m_spec_bad == 0, "%d differ" % m_spec_bad)
  res.obligation("oracle:assign unexplained disagreements", m_unexpl == 0, "%d" % m_unexpl)
  res.extra["ext_argsite"] = dict(hist, calls=len(arg_cases), compared=n_corr)
  res.extra["ext_assign"] = dict(shist, frames_total=len(st_cases), store_verdicts_compared=m_corr)
  return impl_ok


def replay(d):
  """Re-run a stored replay (leg argsite / store): prints pytype's verdict and the oracle's; 1 if it still differs."""
  print("source :\n" + d["source"])
  try:
    errs = G.run_pytype(d["source"])
  except Exception as e:   # pylint: disable=broad-except
    print("pytype : raises %s: %s" % (type(e).__name__, str(e)[:200]))
    return 1
  got = any(name == d["error"] and line == d["line"] for name, line, _ in errs)
  print("source :\n" + d["source"])
  print("line   :", d["line"])
  print("pytype : %s reported = %s" % (d["error"], got))
  print("oracle : error expected = %s" % d["expect_error"])
  return 1 if got != d["expect_error"] else 0
