"""C10 — class linearisation agrees with CPython's MRO.

Proof: coq/Props/C10.v over coq/Mro/Model.v (two executable algorithms: pytype's MergeSequences/MROMerge/
compute_mro/GetBasesInMRO and CPython's pmerge/check_duplicates/mro_implementation).
Tie: (1) merge_py vs the real mro.MROMerge, (2) mros_c vs the running interpreter (type(name, bases, {})),
(3) get_bases_in_mro vs the real mro.GetBasesInMRO on pytd classes, (4) mros_py dupcheck vs every real
class_mixin.Class.compute_mro call observed while pytype analyses generated programs (this also establishes
which value of the model parameter `dupcheck` describes the tree under test).
Oracle (independent of the model): real pytype end to end vs CPython executing the same program.
"""
import json
import os
import re
import subprocess
import sys
import time

import common
import c10_gen as g
import c10_attr as A

PREAMBLE = """From Coq Require Import List Arith Bool. Import ListNotations.
From PV Require Import Mro.Model.
Definition enc_res (r : res (list nat)) : list nat :=
  match r with Ok l => 0 :: l | Reject => [1] | OutOfFuel => [2] | Crash => [3] end.
Definition enc_tab (r : table_result) : list (list nat) :=
  match r with TableOk m => [0] :: m | TableErr m i => [1; i] :: m | TableBad m i => [2; i] :: m end.
Definition run_t (H : list (list nat)) :=
  (enc_tab (mros_c H), enc_tab (mros_py false H), enc_tab (mros_py true H),
   enc_res (get_bases_in_mro (removelast H) (last H []))).
Definition run_m (c : list nat * list (list nat)) := enc_res (merge_py_gen (fun x => mem x (fst c)) (snd c)).
"""


def line_l(l):
  return " ".join([str(len(l))] + [str(x) for x in l])


def line_ll(ll):
  return " ".join([str(len(ll))] + [line_l(l) for l in ll])


def parse_tab(s):
  """'1 5 ; 0 ; 1 0' -> [[1,5],[0],[1,0]]"""
  return [[int(x) for x in part.split()] for part in s.split(";")]


def run_model(exe, lines):
  pr = subprocess.run([exe], input="\n".join(lines) + "\n", capture_output=True, text=True)
  if pr.returncode != 0:
    raise common.BuildError("extracted model failed: " + pr.stderr[-1500:])
  out = pr.stdout.split("\n")
  if out and out[-1] == "":
    out.pop()
  if len(out) != len(lines):
    raise common.BuildError("extracted model printed %d lines for %d cases" % (len(out), len(lines)))
  return out


def coq_list(l):
  return "[" + ";".join(str(x) for x in l) + "]"


def coq_llist(ll):
  return "[" + ";".join(coq_list(l) for l in ll) + "]"


def parse_nat_list(term):
  return [int(x) for x in re.findall(r"\d+", term)]


def has_dup(H):
  return any(len(set(b)) != len(b) for b in H)


# ----------------------------------------------------------------------------------------------
# e2e

def make_job(jid, mode, H, attrs, style, history=None):
  """H must already be truncated at CPython's first failure.  `history` (source mode only): reads interleaved
  with class-attribute assignments/deletions after class creation, see c10_gen.random_history."""
  mros, fail, msg = g.cpython_table(H)
  lk = g.runtime_lookups(H, attrs, mros)
  history = [list(op) for op in history or []] if mode == "source" else []
  if history and g.simulate_history(mros, attrs, history) is None:
    history = []
  text, cls_line, probes = g.source_program(H, attrs, lk, style, history, fail)
  job = {"id": jid, "mode": mode, "H": H, "attrs": attrs, "style": style, "oracle_text": text,
         "fail": fail, "cpy_msg": msg, "probes": probes, "history": history}
  if mode == "source":
    job.update(text=text, err_line=cls_line.get(fail))
  else:
    pyi, src, touch, probes2 = g.stub_program(H, attrs, lk)
    job.update(text=src, pyi=pyi, err_line=touch.get(fail), probes=probes2)
  return job


def type_names(inferred):
  """Marker class names admitted by an inferred stub type; None = admits anything (Any / unparsable)."""
  t = inferred.replace("foo.", "")
  if "Any" in t or not re.fullmatch(r"(?:Union\[)?[TU]\d+(?:(?:, | \| )[TU]\d+)*\]?", t):
    return None
  return set(re.findall(r"[TU]\d+", t))


def cname_to_id(n):
  n = n.split(".")[-1]
  if n == "object":
    return 0
  m = re.match(r"^C(\d+)$", n)
  return int(m.group(1)) if m else -1


def observed_table(job, out):
  """Table result as seen through the recorded compute_mro calls."""
  first = {}
  for name, _, mro_names in out["mro_calls"]:
    i = cname_to_id(name)
    if i > 0 and i not in first:
      first[i] = None if mro_names is None else [cname_to_id(x) for x in mro_names]
  mros = [[0]]
  for i in range(1, len(job["H"])):
    if i not in first:
      return None
    if first[i] is None:
      return g.enc_table(mros, i)
    mros.append(first[i])
  return g.enc_table(mros, None)


def judge(job, out):
  """Direct property oracle: pytype's output vs CPython executing the same program.
  Returns list of (fingerprint, what)."""
  if out.get("exc"):
    if "UsageError" in out["exc"]:
      return [("not-explorable", out["exc"])]
    return [("pytype-crash", out["exc"])]
  issues = []
  cpy_vals, cpy_err = g.run_in_cpython(job["oracle_text"])
  fail = job["fail"]
  assert (cpy_err is None) == (fail is None), (cpy_err, fail)
  mro_errs = [e for e in out["errors"] if e[0] == "mro-error"]
  others = [e for e in out["errors"] if e[0] != "mro-error"]
  if others:
    issues.append(("unexpected-error:" + others[0][0], "pytype reports %s" % others[0]))
  if fail is None:
    if mro_errs:
      issues.append(("spurious-mro-error", "CPython creates every class; pytype: %s" % mro_errs[0]))
  else:
    good = [e for e in mro_errs if e[1] == job["err_line"] and e[2].startswith("C%d has invalid inheritance" % fail)]
    if not good:
      kind = "duplicate-base" if cpy_err.startswith("duplicate base class") else "missing-mro-error:inconsistent-order"
      issues.append((kind, "CPython: TypeError: %s at class C%d; pytype reports no mro-error there (errors: %s)"
                     % (cpy_err, fail, out["errors"][:2])))
    if len(mro_errs) > len(good):
      issues.append(("spurious-mro-error", "extra mro-error(s): %s" % [e for e in mro_errs if e not in good][:2]))
  stub_types = dict(re.findall(r"^(\w+): (.+)$", out["pyi"], re.M))
  nodel_vals = None
  for v, tname in sorted(cpy_vals.items()):
    got = stub_types.get(v, "<absent>").replace("foo.", "")
    if v.startswith("h_"):
      # history read: a violation only if the run-time type is EXCLUDED by the inferred type (a union that
      # contains it is a widening, not a wrong lookup)
      admitted = type_names(got) if got != "<absent>" else set()
      if admitted is None or tname in admitted:
        continue
      i, n, kind = job["probes"].get(v, (None, None, None))
      fp = "lookup-after-class-attribute-change"
      if any(op[0] == "D" for op in job.get("history", [])):
        # vm.del_attr does nothing by design: is the answer the one CPython gives when the `del`s are not executed?
        if nodel_vals is None:
          nodel_vals, _ = g.run_in_cpython("\n".join(l for l in job["oracle_text"].split("\n") if not l.startswith("del ")))
        if nodel_vals.get(v) in admitted:
          fp = "class-attribute-deletion-ignored"
      issues.append((fp, "%s: CPython finds %s at that point, pytype infers %s (class C%s attr %s via %s; history %s)"
                     % (v, tname, got, i, n, kind, job.get("history"))))
      break
    if got != tname:
      i, n, kind = job["probes"].get(v, (None, None, None))
      issues.append(("lookup-order", "%s: CPython finds %s, pytype infers %s (class C%s attr %s via %s)"
                     % (v, tname, got, i, n, kind)))
      break
  # the MROs the real compute_mro returned (observed, no model involved) vs the interpreter's __mro__
  obs = observed_table(job, out) if out.get("mro_calls") else None
  cm, cf, cmsg = g.cpython_table(job["H"])
  cpy = g.enc_table(cm, cf)
  if obs is not None and obs != cpy and not any(f in ("duplicate-base", "missing-mro-error:inconsistent-order") for f, _ in issues):
    if obs[0] == cpy[0]:
      k = next(i for i in range(1, max(len(obs), len(cpy))) if obs[i:i + 1] != cpy[i:i + 1])
      issues.append(("compute_mro-order-differs-from-cpython",
                     "class C%d: compute_mro returned %s, CPython's __mro__ is %s" % (k - 1, obs[k:k + 1], cpy[k:k + 1])))
    else:
      issues.append(("compute_mro-verdict-differs-from-cpython", "compute_mro: %s, CPython: %s (%s)" % (obs[0], cpy[0], cmsg)))
  return issues


def run_workers(jobs, n_workers):
  """Starts the workers; returns a function that waits and returns {id: out}."""
  chunks = [jobs[k::n_workers] for k in range(n_workers)]
  procs = []
  env = common.impl_env()
  env["PYTHONPATH"] = env["PYTHONPATH"] + os.pathsep + os.path.join(common.VERIF, "harness", "props")
  for ch in chunks:
    if not ch:
      continue
    p = subprocess.Popen([common.PY, os.path.join(common.VERIF, "harness", "props", "c10_e2e.py")],
                         stdin=subprocess.PIPE, stdout=subprocess.PIPE, stderr=subprocess.PIPE, text=True, env=env)
    payload = json.dumps([{k: j[k] for k in ("id", "text", "pyi") if k in j} for j in ch])
    procs.append((p, payload))
  import threading
  results = {}
  errs = []
  def pump(p, payload):
    so, se = p.communicate(payload)
    for line in so.split("\n"):
      if line.startswith("{"):
        o = json.loads(line)
        results[o["id"]] = o
    if p.returncode != 0:
      errs.append(se[-2000:])
  threads = [threading.Thread(target=pump, args=pp) for pp in procs]
  for t in threads:
    t.start()
  def wait():
    for t in threads:
      t.join()
    return results, errs
  return wait


_inproc = {}


def run_inproc(job):
  """One job through real pytype in this process (for shrinking and replay)."""
  if not _inproc:
    common.bootstrap_pytype()
    from pytype import config, io
    import c10_e2e
    _inproc["io"] = io; _inproc["config"] = config; _inproc["calls"] = c10_e2e.install_hook()
  import shutil
  del _inproc["calls"][:]
  out = {"errors": [], "pyi": "", "mro_calls": [], "exc": None}
  try:
    kw = {}
    if job.get("pyi") is not None:
      d = os.path.join(common.BUILD, "c10", "stubs", "main%d" % os.getpid())
      shutil.rmtree(d, ignore_errors=True); os.makedirs(d)
      open(os.path.join(d, "foo.pyi"), "w").write(job["pyi"])
      kw["pythonpath"] = d
    ret, pyi = _inproc["io"].generate_pyi(job["text"], _inproc["config"].Options.create(python_version=(3, 12), **kw))
    out["errors"] = [[e.name, e.line, e.message] for e in ret.context.errorlog]
    out["pyi"] = pyi
  except Exception as e:
    out["exc"] = "%s: %s" % (type(e).__name__, str(e)[:300])
  out["mro_calls"] = [list(c) for c in _inproc["calls"]]
  return out


def shrink_job(job, fp, budget_s=20.0):
  """Smaller table/attrs/history with the same fingerprint (time-bounded)."""
  deadline = time.time() + budget_s
  H, attrs = [list(b) for b in job["H"]], [list(a) for a in job["attrs"]]
  hist = [list(op) for op in job.get("history") or []]
  def still(H2, attrs2, hist2):
    H3, mros3, _, _ = g.truncate_at_first_failure(H2)
    if hist2 and g.simulate_history(mros3, attrs2[:len(H3)], hist2) is None:
      return False
    j = make_job(0, job["mode"], H3, attrs2[:len(H3)], job["style"], hist2)
    return any(f == fp for f, _ in judge(j, run_inproc(j)))
  def drop_class(H, attrs, hist, k):
    if any(k in b for b in H[k + 1:]) or any((op[2] if op[0] == "R" else op[1]) == k for op in hist):
      return None
    ren = lambda x: x - 1 if x > k else x
    hist2 = [[op[0], op[1], ren(op[2]), op[3]] if op[0] == "R" else [op[0], ren(op[1])] + op[2:] for op in hist]
    return ([[ren(x) for x in b] for i, b in enumerate(H) if i != k], [a for i, a in enumerate(attrs) if i != k], hist2)
  changed = True
  while changed and time.time() < deadline:
    changed = False
    for i in range(len(hist) - 1, -1, -1):
      h2 = hist[:i] + hist[i + 1:]
      if time.time() < deadline and still(H, attrs, h2):
        hist = h2; changed = True
    for k in range(len(H) - 1, 0, -1):
      c = drop_class(H, attrs, hist, k)
      if c and len(c[0]) > 1 and time.time() < deadline and still(*c):
        H, attrs, hist = c; changed = True
        break
    for i in range(1, len(attrs)):
      for n in list(attrs[i]):
        a2 = [list(a) for a in attrs]; a2[i].remove(n)
        if time.time() < deadline and still(H, a2, hist):
          attrs = a2; changed = True
  H3, _, _, _ = g.truncate_at_first_failure(H)
  return make_job(job["id"], job["mode"], H3, attrs[:len(H3)], job["style"], hist)


# ----------------------------------------------------------------------------------------------

def common_coqchk(pid):
  r = subprocess.run(["timeout", "1500", "coqchk", "-silent", "-o", "-Q", common.COQ, "PV", f"PV.Props.{pid}"],
                     capture_output=True, text=True, cwd=common.COQ)
  return r.returncode == 0, r.stdout + r.stderr


def pure_oracle(H, pre=None):
  """Direct property oracle on the real pure-Python code, no model involved: mro.MROMerge applied per class exactly as
  compute_mro applies it, and mro.GetBasesInMRO on hand-built pytd classes, vs the running interpreter.
  Only for tables without a repeated base (those are decided end to end).  Returns [(fingerprint, what)]."""
  if has_dup(H):
    return []
  cm, cf, _ = pre[0] if pre else g.cpython_table(H)
  pm, pf, _ = pre[1] if pre else g.py_table(H)
  a, b = g.enc_table(cm, cf), g.enc_table(pm, pf)
  issues = []
  if a != b:
    if a[0] == b[0]:
      k = next(i for i in range(1, max(len(a), len(b))) if a[i:i + 1] != b[i:i + 1])
      issues.append(("mromerge-order-differs-from-cpython",
                     "class C%d: MROMerge([[C]] + base MROs + [bases]) = %s, CPython's __mro__ = %s" % (k - 1, b[k:k + 1], a[k:k + 1])))
    else:
      issues.append(("mromerge-verdict-differs-from-cpython", "MROMerge per class: %s, CPython: %s" % (b[0], a[0])))
  if cf is None or cf == len(H) - 1:       # every class before the last one exists in CPython
    want = [1] if cf is not None else [0] + cm[-1][1:]
    got = (pre[2] if pre else g.pytd_bases_in_mro(H[:-1], H[-1]))
    if got != want:
      fp = "getbasesinmro-order-differs-from-cpython" if got[0] == want[0] == 0 else "getbasesinmro-verdict-differs-from-cpython"
      issues.append((fp, "GetBasesInMRO(C%d) = %s ([0]+bases in MRO, [1] = MROError); CPython: %s" % (len(H) - 1, got, want)))
  return issues


def shrink_table(H, fp, budget_s=15.0):
  """Drops classes that no later class names while pure_oracle keeps reporting fp (time-bounded)."""
  deadline = time.time() + budget_s
  H = [list(b) for b in H]
  changed = True
  while changed and time.time() < deadline:
    changed = False
    for k in range(len(H) - 1, 0, -1):
      if any(k in b for b in H[k + 1:]) or len(H) <= 2:
        continue
      ren = lambda x: x - 1 if x > k else x
      H2 = [[ren(x) for x in b] for i, b in enumerate(H) if i != k]
      if any(f == fp for f, _ in pure_oracle(H2)):
        H = H2; changed = True
        break
  return H


def targeted_attrs(H):
  """Attribute placement that makes an MRO order difference visible: attribute a is defined by exactly the two
  classes at the first position where the real MROMerge result and CPython's __mro__ differ."""
  cm, cf, _ = g.cpython_table(H)
  pm, pf, _ = g.py_table(H)
  attrs = [[] for _ in H]
  for i in range(1, min(len(cm), len(pm))):
    if cm[i] != pm[i]:
      k = next(j for j in range(max(len(cm[i]), len(pm[i]))) if cm[i][j:j + 1] != pm[i][j:j + 1])
      for c in cm[i][k:k + 1] + pm[i][k:k + 1]:
        if c:
          attrs[c] = ["a", "m"]
      break
  return attrs


def extended_search(res, seed, want_fps, budget_s=75.0):
  """After a correspondence leg broke: look for a table on which the REAL code disagrees with CPython
  (exhaustive <=5 user classes x <=3 bases without repetition pruned as usual, then random tables)."""
  deadline = time.time() + budget_s
  found = {}
  def visit(H):
    for fp, what in pure_oracle(H):
      key = (len(H), sum(map(len, H)))
      if fp not in found or key < found[fp][0]:
        found[fp] = (key, H, what)
  r = common.rng(seed, "c10", "extended")
  n = 0
  for H in g.exhaustive(5, 3, allow_repeats=False):
    visit(H); n += 1
    if n % 256 == 0 and (time.time() > deadline or (want_fps and all(any(f.startswith(w) for f in found) for w in want_fps))):
      break
  while time.time() < deadline and n < 200000 and not found:
    visit(g.random_table(r, r.randint(3, 9), max_bases=r.choice([3, 4]), p_dup=0.0, p_wild=0.1)); n += 1
  res.extra["extended_search_tables"] = n
  return found


def load_corpus():
  out = []
  cdir = os.path.join(common.CORPUS, "C10")
  for f in sorted(os.listdir(cdir)) if os.path.isdir(cdir) else []:
    d = json.load(open(os.path.join(cdir, f)))
    if d.get("mode") in ("attr", "generic"):      # corpus of the extension: load_ext_corpus
      continue
    out.append((f, d["H"], d.get("attrs"), d.get("history")))
  return out


def load_ext_corpus():
  """Corpus entries of the extension: {"mode": "attr", "H", "spec", "probes"} / {"mode": "generic", "G", "attrs"}."""
  out = []
  cdir = os.path.join(common.CORPUS, "C10")
  for f in sorted(os.listdir(cdir)) if os.path.isdir(cdir) else []:
    d = json.load(open(os.path.join(cdir, f)))
    if d.get("mode") in ("attr", "generic"):
      out.append((f, d))
  return out


def shrink_attr_job(job, var, fp, budget_s=15.0):
  """Keeps the failing probe only, then drops classes the probed class does not inherit from (time-bounded)."""
  deadline = time.time() + budget_s
  def fails(j):
    return any(f == fp for f, _, _ in A.judge_attr(j, run_inproc(j)))
  best = job
  j1 = A.rebuild_attr_job(dict(job, probes={var: job["probes"][var]}))
  if var in j1["probes"] and fails(j1):
    best = j1
  H, spec = best["H"], best["spec"]
  k = len(H) - 1
  while k >= 2 and time.time() < deadline:
    users = any(k in b for b in H[k + 1:]) or any(k in [i, jj] for _, i, jj in best["probes"].values())
    if not users:
      ren = lambda x: x - 1 if x > k else x
      H2 = [[ren(x) for x in b] for i, b in enumerate(H) if i != k]
      spec2 = [sp for i, sp in enumerate(spec) if i != k]
      # coop2 / super2 bodies name their own class by index: regenerated from spec, so renaming is implicit
      probes2 = {v: [kd, ren(i), None if jj is None else ren(jj)] for v, (kd, i, jj) in best["probes"].items()}
      try:
        j2 = A.rebuild_attr_job(dict(best, H=H2, spec=spec2, probes=probes2))
        if j2["probes"] and fails(j2):
          best, H, spec = j2, H2, spec2
      except Exception:
        pass
    k -= 1
  return best


def run(res):
  thorough = res.tier == "thorough"
  res.rule = ("class tables (class i = i-th statement, value = tuple of bases as written, class 0 = object): "
              "EXHAUSTIVE over <=%d user classes x <=3 bases per class with repetition allowed (only tables whose proper "
              "prefixes CPython can create; maximal ones) + random tables up to 9 user classes (plausible orders, arbitrary "
              "orders, repeated bases) + random sequence lists for the bare merge (repeats inside sequences, empty sequences, "
              "SINGLETON elements). End to end: one generated program per table (source classes or stub classes of a module "
              "foo.pyi), every class body defines a random subset of {a, b, m()} whose type names the defining class. "
              "Source programs additionally end with a HISTORY: reads (C.a, C().a, C().m()) interleaved with class-attribute "
              "assignments (fresh marker type each) and deletions on classes earlier than / equal to / later than the current "
              "definition in the reader's MRO, then re-reads; each read is compared with CPython at that point (violation only if "
              "the run-time type is excluded by the inferred type). A case is "
              "non-trivial if some class has >=2 bases; distinct by (mode, table, attrs). EXTENSION: (attr) random legal hierarchies of "
              "4-8 classes under one root with diamonds; per class a random body: class attributes a/b, method m (plain / "
              "super().m() / super(C, self).m()), ga (super().a, both forms), classmethod cm (plain / super().cm()), __init__ "
              "(stores to x/a before / after / without super().__init__()), __getattr__/__getattribute__; reads C().m(), C().ga(), "
              "C.cm(), C().x, C().a, C().zz, super(Cj, C()).a executed in CPython (failing reads dropped) and compared with the "
              "inferred type (Any without any error = call-depth widening, skipped and counted); (generic) random tables over "
              "object/Generic/user classes with bases written plain, [T] or [int], Generic[T] first/last/between, rarely the same "
              "alias twice; created with the real typing module, truncated at the first MRO TypeError; tables that typing or "
              "pytype's TypeVar-consistency check refuse for non-MRO reasons are skipped and counted.") % (5 if thorough else 4)
  res.assumptions = [
      "CPython's pmerge/check_duplicates/mro_implementation transcribed from Objects/typeobject.c (3.12) by hand; validated "
      "only differentially against the running interpreter (type(name, bases, {}).__mro__ / TypeError)",
      "classes are modelled as natural numbers (object identity / ClassType name equality); metaclasses, Protocol, typing special "
      "forms other than Generic[...] are outside the model; every written subscription A[...] is modelled as a fresh object",
      "super(): metaclass-free programs (a class object's cls is builtins.type); super_cls compared by full_name = class identity; "
      "CPython's supercheck/_super_lookup_descr transcribed by hand from typeobject.c 3.12, validated differentially",
      "instance reads: programs without data descriptors/properties/__slots__; __init__ bodies are stores and one optional "
      "super().__init__() call; hooks return a constant; typing._GenericAlias.__mro_entries__ transcribed by hand (3.12)",
      "a program is a sequence of class statements; comparison stops at the first refused class (CPython aborts there)",
      "class attribute lookup is modelled as 'first class in the MRO whose body defines the name'; descriptors and metaclass "
      "attributes are outside the model",
      "model parameter dupcheck (duplicate-base check in compute_mro present or not) is determined per run by the observed "
      "compute_mro calls; generators, differ and program printer in harness/props/c10*.py are trusted",
  ]
  r = common.rng(res.seed, "c10")
  t0 = time.time()

  # ---- inputs -------------------------------------------------------------------------------
  corpus = load_corpus()
  tables = [("corpus:" + f, H) for f, H, _, _ in corpus]
  ex = g.exhaustive(5 if thorough else 4, 3)
  tables += [("ex%d" % k, H) for k, H in enumerate(ex)]
  n_rand = 6000 if thorough else 700
  for k in range(n_rand):
    tables.append(("rnd%d" % k, g.random_table(r, r.randint(2, 9), max_bases=r.choice([3, 3, 4]))))
  merges = []
  n_seq = 6000 if thorough else 800
  for k in range(n_seq):
    merges.append(g.random_seqs(r))

  # e2e jobs: corpus; exhaustive tables stratified by CPython's verdict; random tables (truncated at the first refusal)
  n_e2e = 6000 if thorough else 560
  e2e_tabs = [(H, a) for _, H, a, _ in corpus]
  corpus_hist = {k: c[3] for k, c in enumerate(corpus)}
  r2 = common.rng(res.seed, "c10", "e2e")
  groups = {"ok": [], "inc": [], "dup": []}
  for H in ex:
    _, f, msg = g.cpython_table(H)
    groups["ok" if f is None else ("dup" if msg.startswith("duplicate") else "inc")].append(H)
  if thorough:
    e2e_tabs += [(H, None) for H in ex if len(H) <= 4]
  for key, frac in (("ok", 0.35), ("inc", 0.2), ("dup", 0.1)):
    e2e_tabs += [(H, None) for H in r2.sample(groups[key], min(len(groups[key]), int(frac * n_e2e)))]
  while len(e2e_tabs) < n_e2e:
    H = g.random_table(r2, r2.randint(2, 9), max_bases=3, p_dup=0.03, p_wild=0.06)
    e2e_tabs.append((g.truncate_at_first_failure(H)[0], None))
  jobs = []
  for k, (H, attrs) in enumerate(e2e_tabs):
    H = g.truncate_at_first_failure(H)[0]
    attrs = (attrs or g.random_attrs(r2, H))[:len(H)]
    stub_frac = 0.4 if thorough else 0.25
    mode = "stub" if r2.random() < stub_frac else "source"
    style = r2.randrange(4)
    hist = None
    if corpus_hist.get(k) is not None:
      hist = corpus_hist[k]
    elif mode == "source" and r2.random() < 0.85:
      created = g.cpython_table(H)[0]
      hist = g.random_history(r2, created, attrs)
    jobs.append(make_job(len(jobs), mode, H, attrs, style, hist))
    if k < len(corpus):   # corpus tables go through both modes
      jobs.append(make_job(len(jobs), "stub" if mode == "source" else "source", H, attrs, 1, corpus_hist.get(k)))
  # extension: super()/__init__ chains/hooks programs and Generic tables
  r4 = common.rng(res.seed, "c10", "attr")
  ext_corpus = load_ext_corpus()
  attr_jobs, gen_jobs = [], []
  for f, d in ext_corpus:
    if d["mode"] == "attr":
      attr_jobs.append(A.rebuild_attr_job({"id": 100000 + len(attr_jobs), "mode": "attr", "H": d["H"], "spec": d["spec"],
                                           "probes": d["probes"]}))
    else:
      gen_jobs.append(A.build_generic_job(200000 + len(gen_jobs), d["G"], d["attrs"]))
  n_attr = 900 if thorough else 56
  n_gen = 700 if thorough else 48
  while len(attr_jobs) < n_attr:
    Hh = A.gen_hier(r4, r4.choice([4, 5, 5, 6, 6, 7, 8]))
    attr_jobs.append(A.make_attr_job(100000 + len(attr_jobs), r4, Hh, max_probes=14 if thorough else 11))
  n_gen_dropped = 0
  while len(gen_jobs) < n_gen:
    gj = A.make_generic_job(200000 + len(gen_jobs), r4, A.gen_gtable(r4, r4.randint(2, 6)))
    if gj is None:
      n_gen_dropped += 1
      continue
    gen_jobs.append(gj)
  res.extra["t_generate_s"] = round(time.time() - t0, 1)

  common.build_cfg()
  n_workers = int(os.environ.get("VERIF_C10_WORKERS", 8 if thorough else 4))
  # the slower extension programs first in every worker's share, so that the tail is made of short programs
  wait_e2e = run_workers(attr_jobs + gen_jobs + jobs, n_workers)          # runs while Coq builds and the pure legs are compared

  # ---- Coq theorems -------------------------------------------------------------------------
  common.coq_obligations(res, "C10")
  exe = common.build_extracted("mro", "Extract/ExtractMro.v",
                               os.path.join(common.VERIF, "harness", "ocaml", "mro_driver.ml"), ["mro_model"])
  res.trusted_base += ["Coq extraction (ExtrOcamlBasic only) + OCaml 4.13.1 ocamlopt + harness/ocaml/mro_driver.ml "
                       "(cross-checked on every run against in-kernel vm_compute on a sample)"]

  # ---- pure correspondence ------------------------------------------------------------------
  t1 = time.time()
  if common.REPO not in sys.path:
    sys.path.insert(0, common.REPO)
  hist_sizes, hist_out = {}, {"all-created": 0, "inconsistent-order": 0, "duplicate-base": 0}
  pure_viol = {}
  impl_t = []
  for name, H in tables:
    cm, cf, cmsg = g.cpython_table(H)
    pm, pf, pmerges = g.py_table(H)
    pd = g.pytd_bases_in_mro(H[:-1], H[-1])
    impl_t.append((g.enc_table(cm, cf), g.enc_table(pm, pf), pd))
    for sq in pmerges:
      merges.append((sq, []))
    hist_sizes[len(H) - 1] = hist_sizes.get(len(H) - 1, 0) + 1
    hist_out["all-created" if cf is None else ("duplicate-base" if cmsg.startswith("duplicate") else "inconsistent-order")] += 1
    nontrivial = any(len(b) >= 2 for b in H)
    res.count(("table", tuple(map(tuple, H))) if nontrivial else None)
    # direct oracle on the real pure functions vs the interpreter (no model involved)
    for fp, what in pure_oracle(H, pre=((cm, cf, cmsg), (pm, pf, pmerges), pd)):
      pure_viol.setdefault(fp, []).append((len(H), sum(map(len, H)), H, what))
  seen = set()
  mcases = []
  for seqs, sing in merges:
    key = (tuple(map(tuple, seqs)), tuple(sing))
    if key in seen:
      continue
    seen.add(key)
    mcases.append((seqs, sing, g.py_merge(seqs, sing)))
    res.count(("merge", key) if len(seqs) >= 2 else None)
  model_t = run_model(exe, ["T " + line_ll(H) for _, H in tables])
  model_m = run_model(exe, ["M %s %s" % (line_l(sg), line_ll(sq)) for sq, sg, _ in mcases])
  bad_c, bad_p, bad_d, bad_m = [], [], [], []
  for (name, H), (ic, ip, idd), mo in zip(tables, impl_t, model_t):
    mc, mp, _, md = [x.strip() for x in mo.split("|")]
    if parse_tab(mc) != ic:
      bad_c.append((name, H, "interpreter=%s model=%s" % (ic, parse_tab(mc))))
    if parse_tab(mp) != ip:
      bad_p.append((name, H, "MROMerge-per-class=%s model=%s" % (ip, parse_tab(mp))))
    if [int(x) for x in md.split()] != idd:
      bad_d.append((name, H, "GetBasesInMRO=%s model=%s" % (idd, md)))
  for (sq, sg, e), mo in zip(mcases, model_m):
    if [int(x) for x in mo.split()] != e:
      bad_m.append((sq, sg, "MROMerge=%s model=%s" % (e, mo)))
  res.obligation("correspondence:mros_c-vs-interpreter(type().__mro__/TypeError)", not bad_c,
                 "%d of %d tables disagree; first: %s" % (len(bad_c), len(tables), bad_c[:1]))
  res.obligation("correspondence:mros_py-vs-mro.MROMerge-per-class", not bad_p,
                 "%d of %d tables disagree; first: %s" % (len(bad_p), len(tables), bad_p[:1]))
  res.obligation("correspondence:get_bases_in_mro-vs-mro.GetBasesInMRO", not bad_d,
                 "%d of %d tables disagree; first: %s" % (len(bad_d), len(tables), bad_d[:1]))
  res.obligation("correspondence:merge_py_gen-vs-mro.MROMerge", not bad_m,
                 "%d of %d sequence lists disagree; first: %s" % (len(bad_m), len(mcases), bad_m[:1]))
  # A broken leg with no table on which the real code itself disagrees with CPython yet: widen the search.
  if (bad_p or bad_d or bad_m) and not pure_viol:
    t_ext = time.time()
    for fp, (_, H, what) in extended_search(res, res.seed, (["mromerge"] if (bad_p or bad_m) else []) +
                                            (["getbasesinmro"] if bad_d else [])).items():
      pure_viol.setdefault(fp, []).append((len(H), sum(map(len, H)), H, what))
    res.extra["t_extended_search_s"] = round(time.time() - t_ext, 1)
  extra_jobs = []
  for fp, lst in sorted(pure_viol.items()):
    lst.sort()
    H = shrink_table(lst[0][2], fp)
    what = next((w for f, w in pure_oracle(H) if f == fp), lst[0][3])
    if len(res.violations) < 3 or fp in res.known:
      res.violation(fp, "%s [%d tables; smallest H=%s]" % (what, len(lst), H), {"kind": "table", "H": H})
    if fp.startswith("mromerge"):
      # the same table as a source program through real pytype, attributes placed where the orders differ
      Ht = g.truncate_at_first_failure(H)[0]
      extra_jobs.append(make_job(-1 - len(extra_jobs), "source", Ht, targeted_attrs(H)[:len(Ht)], 1))
  # the extracted runner against the kernel's own evaluation (vm_compute) on a sample
  r3 = common.rng(res.seed, "c10", "kernel")
  ks = [i for i in range(len(tables)) if tables[i][0].startswith("corpus")] + r3.sample(range(len(tables)), min(80, len(tables)))
  km = r3.sample(range(len(mcases)), min(80, len(mcases)))
  body = PREAMBLE + "Eval vm_compute in (map run_t %s).\nEval vm_compute in (map run_m %s).\n" % (
      "[" + ";".join(coq_llist(tables[i][1]) for i in ks) + "]",
      "[" + ";".join("(%s,%s)" % (coq_list(mcases[i][1]), coq_llist(mcases[i][0])) for i in km) + "]")
  ok, out = common.run_cases_v("c10_kernel", body)
  terms = common.parse_coq_eval(out) if ok else []
  def canon_model_t(mo):
    return re.sub(r"[^0-9;|]+", " ", mo)
  kernel_ok = ok and len(terms) == 2
  kdetail = out[-600:] if not kernel_ok else ""
  if kernel_ok:
    # compare digit streams: kernel prints nested Coq lists, the runner prints flat text
    want = " ".join(" ".join(re.findall(r"\d+", model_t[i])) for i in ks)
    got = " ".join(re.findall(r"\d+", terms[0]))
    want_m = " ".join(" ".join(re.findall(r"\d+", model_m[i])) for i in km)
    got_m = " ".join(re.findall(r"\d+", terms[1]))
    kernel_ok = want == got and want_m == got_m
    kdetail = "" if kernel_ok else "extracted runner and vm_compute print different results"
  res.obligation("extraction-crosscheck:vm_compute-vs-extracted-runner", kernel_ok, kdetail)
  res.extra["kernel_crosscheck_cases"] = len(ks) + len(km)
  res.extra["tables"] = len(tables)
  res.extra["exhaustive_tables"] = len(ex)
  res.extra["merge_inputs"] = len(mcases)
  res.extra["merge_inputs_with_singletons"] = sum(1 for _, sg, _ in mcases if sg)
  res.extra["merge_inputs_rejected"] = sum(1 for _, _, e in mcases if e == [1])
  res.extra["table_size_histogram"] = {str(k): v for k, v in sorted(hist_sizes.items())}
  res.extra["table_outcome_histogram"] = hist_out
  res.extra["t_pure_s"] = round(time.time() - t1, 1)

  # ---- e2e ------------------------------------------------------------------------------------
  t2 = time.time()
  results, werrs = wait_e2e()
  n_all_jobs = len(jobs) + len(attr_jobs) + len(gen_jobs)
  res.obligation("e2e-workers", not werrs and len(results) == n_all_jobs,
                 "%d of %d programs returned; %s" % (len(results), n_all_jobs, werrs[:1]))
  ecases = []
  e2e_hist = {"source": 0, "stub": 0, "cpython-refuses-last-class": 0, "with-repeated-base": 0, "not-explorable": 0}
  fp_seen = {}
  n_unobserved = 0
  lookups = []     # one dict per compared read, see below
  n_hist_ops = 0
  for job in jobs:
    out = results.get(job["id"])
    if out is None:
      continue
    e2e_hist[job["mode"]] += 1
    e2e_hist["cpython-refuses-last-class"] += job["fail"] is not None
    e2e_hist["with-repeated-base"] += has_dup(job["H"])
    nontrivial = any(len(b) >= 2 for b in job["H"])
    res.count(("e2e", job["mode"], tuple(map(tuple, job["H"])), tuple(map(tuple, job["attrs"]))) if nontrivial else None)
    issues = judge(job, out)
    if issues and issues[0][0] == "not-explorable":
      e2e_hist["not-explorable"] += 1
      continue
    obs = observed_table(job, out)
    if obs is None:
      n_unobserved += 1
    else:
      ecases.append((job, obs))
    if not out.get("exc"):
      cpy_vals, _ = g.run_in_cpython(job["oracle_text"])
      stub_types = dict(re.findall(r"^(\w+): (.+)$", out["pyi"], re.M))
      body_tab = [list(a) for a in job["attrs"]]
      body_mk = {c: "T%d" % c for c in range(len(job["H"]))}
      for v, (ci, n, kind) in job["probes"].items():
        if kind == "instance" or v not in cpy_vals or v.startswith("h_"):
          continue
        lookups.append({"job": job, "ci": ci, "n": n, "tab_c": body_tab, "tab_py": body_tab, "mk_c": body_mk, "mk_py": body_mk,
                        "cpy": cpy_vals[v], "py": stub_types.get(v, "<absent>").replace("foo.", "")})
      if job.get("history"):
        created = g.cpython_table(job["H"])[0]
        att = job["attrs"][:len(created)]
        rc = g.simulate_history(created, att, job["history"])
        rp = g.simulate_history(created, att, job["history"], ignore_deletes=True)   # vm.del_attr does nothing
        n_hist_ops += len(job["history"])
        for k, ((_, dc, _, _), (_, dp, _, _)) in enumerate(zip(rc, rp)):
          v = "h_%d" % k
          ci, n, kind = job["probes"][v]
          tab = lambda d: [[]] + [sorted(d[i]) for i in range(1, len(created))]
          lookups.append({"job": job, "ci": ci, "n": n, "tab_c": tab(dc), "tab_py": tab(dp),
                          "mk_c": {c: dc[c].get(n) for c in dc}, "mk_py": {c: dp[c].get(n) for c in dp},
                          "cpy": cpy_vals.get(v), "py": stub_types.get(v, "<absent>").replace("foo.", ""), "hist": True})
    if len(res.samples) < 4 and nontrivial and len(job["H"]) >= 5 and not issues:
      res.sample({"mode": job["mode"], "H": job["H"], "attrs": job["attrs"], "cpython_refuses": job["fail"],
                  "pytype_errors": out["errors"], "observed_compute_mro": obs})
    for fp, what in issues:
      fp_seen.setdefault(fp, []).append((job, what))
  for job in extra_jobs:          # tables on which the real pure code disagrees with CPython: confirm end to end
    for fp, what in judge(job, run_inproc(job)):
      if fp not in ("not-explorable", "pytype-crash"):
        fp_seen.setdefault(fp, []).append((job, what))
  for fp, lst in sorted(fp_seen.items()):
    lst.sort(key=lambda jw: (len(jw[0]["H"]), sum(map(len, jw[0]["H"]))))
    job, what = lst[0]
    if fp == "pytype-crash":   # not a C10 verdict, but the property could not be evaluated there
      res.obligation("e2e:pytype-raised", False, "%s on mode=%s H=%s (%d programs)" % (what, job["mode"], job["H"], len(lst)))
      continue
    if fp not in res.known and len(res.violations) < 3:
      try:
        job = shrink_job(job, fp)
        what = next((w for f, w in judge(job, run_inproc(job)) if f == fp), what)
      except Exception as e:  # shrinking is best effort
        what += " (shrink failed: %s)" % e
    if fp in res.known or len(res.violations) < 3:     # at most 3 reported violations
      res.violation(fp, "%s [%d programs; smallest: mode=%s H=%s]" % (what, len(lst), job["mode"], job["H"]),
                    {"kind": "e2e", "mode": job["mode"], "H": job["H"], "attrs": job["attrs"], "style": job["style"],
                     "history": job.get("history") or [], "program": job["text"]})
  # observed compute_mro tables vs the model, for both values of dupcheck
  res.obligation("e2e-observation:compute_mro-recorded-for-every-class", n_unobserved == 0,
                 "%d programs without a recorded compute_mro call for some class" % n_unobserved)
  model_e = run_model(exe, ["T " + line_ll(j["H"]) for j, _ in ecases])
  bad_f, bad_tr = [], []
  for (job, obs), mo in zip(ecases, model_e):
    _, mp_f, mp_t, _ = [x.strip() for x in mo.split("|")]
    if parse_tab(mp_f) != obs:
      bad_f.append((job["mode"], job["H"], "observed=%s model=%s" % (obs, parse_tab(mp_f))))
    if parse_tab(mp_t) != obs:
      bad_tr.append((job["mode"], job["H"], "observed=%s model=%s" % (obs, parse_tab(mp_t))))
  n_dup_obs = sum(1 for j, _ in ecases if has_dup(j["H"]))
  flag = "false" if not bad_f else ("true" if not bad_tr else None)
  res.extra["dupcheck_established"] = flag
  res.extra["e2e_tables_with_repeated_base_observed"] = n_dup_obs
  res.obligation("correspondence:mros_py-vs-observed-compute_mro", flag is not None and n_dup_obs > 0,
                 "model with dupcheck=false disagrees on %d programs (first %s); with dupcheck=true on %d (first %s); "
                 "%d observed tables repeat a base" % (len(bad_f), bad_f[:1], len(bad_tr), bad_tr[:1], n_dup_obs))
  # attribute lookup: model's lookup_c vs what CPython found, model's lookup_py vs what pytype inferred
  name_id = {n: k + 1 for k, n in enumerate(g.ATTR_NAMES)}
  def l_line(e, tab):
    Hc = e["job"]["H"][:len(tab)] if e.get("hist") else e["job"]["H"]
    tab = tab + [[] for _ in range(len(Hc) - len(tab))]
    return "L %s %s %d %d" % (line_ll(Hc), line_ll([[name_id[x] for x in a] for a in tab]), e["ci"], name_id[e["n"]])
  model_lc = run_model(exe, [l_line(e, e["tab_c"]) for e in lookups])
  model_lp = run_model(exe, [l_line(e, e["tab_py"]) for e in lookups])
  bad_lc, bad_lp = [], []
  n_widened = 0
  for e, moc, mop in zip(lookups, model_lc, model_lp):
    lc = moc.split("|")[0].strip()
    lp = mop.split("|")[2 if flag == "true" else 1].strip()
    want_c = e["mk_c"].get(int(lc)) if lc != "-" else None
    want_p = e["mk_py"].get(int(lp)) if lp != "-" else None
    ctx_ = (e["job"]["mode"], e["job"]["H"], e["job"]["attrs"], e["job"].get("history"), e["ci"], e["n"])
    if want_c != e["cpy"]:
      bad_lc.append(ctx_ + ("cpython=%s model=%s" % (e["cpy"], want_c),))
    if e.get("hist") and type_names(e["py"]) != {e["py"]}:
      n_widened += 1          # pytype inferred a union / Any for a read after an assignment: outside the lookup model
      continue
    if want_p != e["py"]:
      bad_lp.append(ctx_ + ("pytype=%s model=%s" % (e["py"], want_p),))
  res.obligation("correspondence:lookup_c-vs-cpython-getattr", not bad_lc,
                 "%d of %d lookups disagree; first: %s" % (len(bad_lc), len(lookups), bad_lc[:1]))
  res.obligation("correspondence:lookup_py-vs-pytype-inferred-attribute-type", not bad_lp,
                 "%d of %d lookups disagree; first: %s" % (len(bad_lp), len(lookups), bad_lp[:1]))
  res.extra["history_reads_compared"] = sum(1 for e in lookups if e.get("hist"))
  res.extra["history_ops"] = n_hist_ops
  res.extra["history_reads_widened_by_pytype"] = n_widened
  res.extra["lookups_compared"] = len(lookups)
  # ---- extension: super() / instance dictionaries / hooks -------------------------------------
  t3 = time.time()
  mo = A.ModelOracle(run_model, exe)
  side_py = 2 if flag != "false" else 1
  live_attr = [j for j in attr_jobs if j["id"] in results]
  qs = []
  for job in live_attr:
    qs += A.queries_for_job(job)
  answers = mo.ask(qs)
  bad_ac, bad_ap = [], []
  attr_fp = {}
  kind_hist = {}
  n_attr_probes = 0
  n_attr_widened = 0
  n_cm_diverge = 0
  for job in live_attr:
    out = results[job["id"]]
    issues = A.judge_attr(job, out)
    if issues and issues[0][0] == "not-explorable":
      e2e_hist["not-explorable"] += 1
      continue
    multi = sum(1 for b in job["H"] if len(b) >= 2)
    res.count(("attr", tuple(map(tuple, job["H"])), json.dumps(job["spec"], sort_keys=True)) if multi else None)
    exp_c = A.expected_for_job(job, answers, 0)
    exp_p = A.expected_for_job(job, answers, side_py)
    stub_types = dict(re.findall(r"^(\w+): (.+)$", out.get("pyi") or "", re.M))
    for var, info in job["probes"].items():
      n_attr_probes += 1
      kind_hist[info[0]] = kind_hist.get(info[0], 0) + 1
      if exp_c[var] != job["cpy"][var]:
        bad_ac.append((job["H"], job["spec"], var, info, "cpython=%s model=%s" % (job["cpy"][var], exp_c[var])))
      if not out.get("exc") and stub_types.get(var) == "Any" and not out["errors"]:
        n_attr_widened += 1       # nested super() calls beyond the analysis' call depth: Any, nothing to compare
      elif not out.get("exc") and exp_p[var] != stub_types.get(var):
        bad_ap.append((job["H"], job["spec"], var, info, "pytype=%s model=%s" % (stub_types.get(var), exp_p[var])))
    for fp, what, var in issues:
      if fp == "super-in-classmethod" and var is not None and exp_p[var] == stub_types.get(var) and exp_p[var] != exp_c[var]:
        # exactly the answer the faithful model (starting_cls = calling class) predicts: theorem super_classmethod_refuted
        fp = "super-in-classmethod-uses-calling-class-mro"
        n_cm_diverge += 1
      attr_fp.setdefault(fp, []).append((job, what, var))
    if len(res.samples) < 6 and multi >= 2 and not issues:
      res.sample({"mode": "attr", "H": job["H"], "probes": job["probes"], "cpython": job["cpy"]})
  res.obligation("correspondence:super/instance-model(CPython side)-vs-cpython", not bad_ac,
                 "%d of %d reads disagree; first: %s" % (len(bad_ac), n_attr_probes, bad_ac[:1]))
  res.obligation("correspondence:super/instance-model(pytype side)-vs-pytype-inferred-type", not bad_ap,
                 "%d of %d reads disagree; first: %s" % (len(bad_ap), n_attr_probes, bad_ap[:1]))
  res.obligation("refutation-reproduced:super-in-classmethod", n_cm_diverge > 0 or bool(bad_ap),
                 "theorem super_classmethod_refuted: no program in which real pytype resolves super() in a classmethod along the "
                 "calling class's MRO where CPython uses the receiver's")
  for fp, lst in sorted(attr_fp.items()):
    lst.sort(key=lambda t: (len(t[0]["H"]), len(t[0]["probes"])))
    job, what, var = lst[0]
    if fp == "pytype-crash":
      res.obligation("e2e:pytype-raised(attr)", False, "%s on H=%s (%d programs)" % (what, job["H"], len(lst)))
      continue
    if fp not in res.known and len(res.violations) < 3 and var is not None:
      try:
        job = shrink_attr_job(job, var, fp)
        what = next((w for f, w, _ in A.judge_attr(job, run_inproc(job)) if f == fp), what)
      except Exception as e:  # shrinking is best effort
        what += " (shrink failed: %s)" % e
    if fp in res.known or len(res.violations) < 3:
      res.violation(fp, "%s [%d programs; smallest: H=%s]" % (what, len(lst), job["H"]),
                    {"kind": "attr", "H": job["H"], "spec": job["spec"], "probes": job["probes"], "program": job["text"]})
  res.extra["attr_programs"] = len(live_attr)
  res.extra["attr_reads_compared"] = n_attr_probes
  res.extra["attr_read_kinds"] = kind_hist
  res.extra["attr_reads_widened_to_Any_by_call_depth"] = n_attr_widened
  res.extra["attr_model_queries"] = len(answers)
  res.extra["attr_fingerprints"] = {k: len(v) for k, v in attr_fp.items()}
  res.extra["attr_classmethod_divergences"] = n_cm_diverge

  # ---- extension: Generic[...] / parameterised bases --------------------------------------------
  live_gen = [j for j in gen_jobs if j["id"] in results]
  ganswers = mo.ask([A.g_line(j["G"]) for j in live_gen])
  bad_gc, bad_gp = [], []
  gen_fp = {}
  g_hist = {"all-created": 0, "cpython-refuses-last-class": 0, "same-reading": 0, "readings-differ-but-agree": 0,
            "readings-disagree": 0, "typevar-conflict-skipped": 0, "unobserved": 0}
  for job in live_gen:
    out = results[job["id"]]
    if any(e[0] == "invalid-annotation" and "Conflicting value for TypeVar" in e[2] for e in out.get("errors", [])):
      g_hist["typevar-conflict-skipped"] += 1      # pytype's own TypeVar consistency check turned the class into Any
      continue
    issues = A.judge_generic(job, out)
    if issues and issues[0][0] == "not-explorable":
      e2e_hist["not-explorable"] += 1
      continue
    res.count(("generic", json.dumps(job["G"]), json.dumps(job["attrs"])) if any(len(b) >= 2 for b in job["G"]) else None)
    g_hist["all-created" if job["fail"] is None else "cpython-refuses-last-class"] += 1
    m = [x.strip() for x in ganswers[A.g_line(job["G"])].split("|")]
    cpy_enc = g.enc_table(job["cpy_mros"], job["fail"])
    if parse_tab(m[0]) != cpy_enc:
      bad_gc.append((job["G"], "cpython=%s model=%s" % (cpy_enc, parse_tab(m[0]))))
    g_hist["same-reading" if m[3] == "1" else ("readings-differ-but-agree" if m[2] == m[0] else "readings-disagree")] += 1
    obs = A.observed_gtable(job, out) if not out.get("exc") else None
    if obs is None:
      g_hist["unobserved"] += 1
    else:
      raw = [[(int(e.split(".")[0]), e.split(".")[1] != "0") for e in row.split()] for row in m[4].split(";")] if m[4].strip() else []
      want = (parse_tab(m[1])[0], raw[2:])
      if (obs[0], obs[1]) != want:
        bad_gp.append((job["G"], "observed=%s model=%s" % (obs, want)))
    for fp, what in issues:
      gen_fp.setdefault(fp, []).append((job, what))
  res.obligation("correspondence:gmros_c-vs-cpython(typing.__mro_entries__+__mro__)", not bad_gc,
                 "%d of %d tables disagree; first: %s" % (len(bad_gc), len(live_gen), bad_gc[:1]))
  res.obligation("correspondence:gmros_py-vs-observed-compute_mro(Generic/parameterised bases)",
                 not bad_gp and g_hist["unobserved"] == 0,
                 "%d of %d tables disagree, %d unobserved; first: %s" % (len(bad_gp), len(live_gen), g_hist["unobserved"], bad_gp[:1]))
  for fp, lst in sorted(gen_fp.items()):
    lst.sort(key=lambda t: (len(t[0]["G"]), sum(map(len, t[0]["G"]))))
    job, what = lst[0]
    if fp == "pytype-crash":
      res.obligation("e2e:pytype-raised(generic)", False, "%s on G=%s (%d programs)" % (what, job["G"], len(lst)))
      continue
    if fp in res.known or len(res.violations) < 3:
      res.violation(fp, "%s [%d programs; smallest: G=%s]" % (what, len(lst), job["G"]),
                    {"kind": "generic", "G": job["G"], "attrs": job["attrs"], "program": job["text"]})
  for fp, thm in (("generic-base-dropped-where-cpython-keeps-it", "generic_dropped_refuted"),
                  ("duplicate-parameterized-base", "generic_alias_duplicate_refuted")):
    res.obligation("refutation-reproduced:" + fp, fp in gen_fp or bool(bad_gp),
                   "theorem %s: no generated/corpus program on which real pytype shows it" % thm)
  res.extra["generic_programs"] = len(live_gen)
  res.extra["generic_tables_dropped_by_typing_checks"] = n_gen_dropped
  res.extra["generic_histogram"] = g_hist
  res.extra["generic_fingerprints"] = {k: len(v) for k, v in gen_fp.items()}
  res.extra["t_extension_s"] = round(time.time() - t3, 1)
  # which theorems speak about this tree
  res.extra["theorems_applicable"] = (
      ["mro_agree_with_dupcheck", "mro_error_iff_with_dupcheck", "lookup_agree_with_dupcheck"] if flag == "true" else
      ["mro_agree_partial", "mro_error_iff_partial", "lookup_agree_partial", "mro_error_iff_refuted (=> finding duplicate-base)"])
  if flag == "false" and "duplicate-base" not in fp_seen:
    # the model says the unchanged code accepts a repeated base; the oracle must have seen it on the real code
    res.obligation("refutation-reproduced:duplicate-base", False,
                   "model has dupcheck=false but no program with a repeated base was accepted by real pytype")
  if flag == "true" and "duplicate-base" in fp_seen:
    res.obligation("dupcheck-consistent", False, "model has dupcheck=true but pytype accepted a repeated base")
  res.extra["e2e_programs"] = len(results)
  res.extra["e2e_histogram"] = e2e_hist
  res.extra["e2e_fingerprints"] = {k: len(v) for k, v in fp_seen.items()}
  res.extra["t_e2e_wait_s"] = round(time.time() - t2, 1)
  res.trusted_base += ["running CPython 3.12 interpreter as the oracle for class creation and attribute lookup",
                       "out-of-tree g++ build of /repo/pytype/typegraph/*.cc (harness/common.py build_cfg)",
                       "observation wrapper around class_mixin.Class.compute_mro in harness/props/c10_e2e.py"]
  mixed_fixed_leg(res)
  if thorough:
    ok, out = common_coqchk("C10")
    res.obligation("coqchk", ok, out[-1500:])
  return "proof"


# ---------------------------------------------------------------------------------------------
# One MRO running through STUB classes and SOURCE classes (fixed programs, in-process, deterministic): the lookup order
# must not depend on where a class comes from.  Expected types are what CPython finds for the all-source equivalent.
MIXED_FIXED = [
    ("source-overrides-stub-attribute",
     "class T1: ...\nclass T2: ...\nclass Base:\n    a: T1\n",
     "import foo\nclass E(foo.Base):\n  a = foo.T2()\ns_e = E().a\nr_e = E.a\ns_b = foo.Base().a\nr_b = foo.Base.a\n",
     "class T1: pass\nclass T2: pass\nclass Base:\n  a = T1()\nclass E(Base):\n  a = T2()\n"
     "s_e = E().a\nr_e = E.a\ns_b = Base().a\nr_b = Base.a\n"),
    ("mixed-diamond",
     "class T1: ...\nclass T2: ...\nclass T3: ...\nclass Root:\n    a: T1\nclass Right(Root):\n    a: T2\n",
     "import foo\nclass Mid(foo.Root):\n  a = foo.T3()\nclass X(Mid, foo.Right):\n  pass\ns_x = X().a\nr_x = X.a\n"
     "s_m = Mid().a\ns_r = foo.Right().a\n",
     "class T1: pass\nclass T2: pass\nclass T3: pass\nclass Root:\n  a = T1()\nclass Right(Root):\n  a = T2()\n"
     "class Mid(Root):\n  a = T3()\nclass X(Mid, Right):\n  pass\ns_x = X().a\nr_x = X.a\ns_m = Mid().a\ns_r = Right().a\n"),
    ("stub-method-before-stub-attribute",
     "class T1: ...\nclass T2: ...\nclass M:\n    def a(self) -> T1: ...\nclass K:\n    a: T2\nclass MK(M, K): ...\n"
     "class KM(K, M): ...\n",
     "import foo\nq_mk = foo.MK().a()\ns_km = foo.KM().a\nclass S(foo.MK):\n  pass\nq_s = S().a()\n",
     "class T1: pass\nclass T2: pass\nclass M:\n  def a(self):\n    return T1()\nclass K:\n  a = T2()\n"
     "class MK(M, K): pass\nclass KM(K, M): pass\nq_mk = MK().a()\ns_km = KM().a\nclass S(MK):\n  pass\nq_s = S().a()\n"),
]


def mixed_fixed_case(name):
  """-> (mismatches, pytype errors, exception text) for one MIXED_FIXED program on the real pytype."""
  _, pyi, src, oracle = next(c for c in MIXED_FIXED if c[0] == name)
  out = run_inproc({"text": src, "pyi": pyi})
  cpy, _ = g.run_in_cpython(oracle)[:2]
  got = dict(re.findall(r"^(\w+): (.+)$", out["pyi"], re.M))
  bad = [(v, t, got.get(v, "<absent>")) for v, t in sorted(cpy.items()) if got.get(v, "<absent>").replace("foo.", "") != t]
  return bad, out["errors"], out["exc"]


def mixed_fixed_leg(res):
  n = 0
  for name, pyi, src, _ in MIXED_FIXED:
    bad, errors, exc = mixed_fixed_case(name)
    if exc and exc.startswith("UsageError"):
      continue
    n += 1
    if exc:
      res.obligation("mixed-hierarchy:pytype-raised", False, "%s: %s" % (name, exc))
    elif (bad or errors) and len(res.violations) < 3:
      what = "; ".join("%s: CPython finds %s, pytype infers %s" % b for b in bad) or "pytype reports %s" % errors[:2]
      res.violation("lookup-order:mixed-stub-source:" + name,
                    "an MRO running through stub and source classes (%s): %s" % (name, what),
                    {"kind": "mixed-fixed", "name": name, "stub foo.pyi": pyi, "program": src})
  res.extra["mixed_stub_source_programs"] = n


def replay(res, path):
  d = json.load(open(path))["replay"]
  if d.get("kind") == "mixed-fixed":
    bad, errors, exc = mixed_fixed_case(d["name"])
    print(d["stub foo.pyi"] + "---\n" + d["program"])
    print("mismatches:", bad, " errors:", errors, " exception:", exc)
    return 1 if (bad or errors or exc) else 0
  if d.get("kind") == "table":
    H = d["H"]
    if common.REPO not in sys.path:
      sys.path.insert(0, common.REPO)
    print("table H          :", H)
    print("cpython          :", g.enc_table(*g.cpython_table(H)[:2]))
    print("MROMerge per cls :", g.enc_table(*g.py_table(H)[:2]))
    print("GetBasesInMRO    :", g.pytd_bases_in_mro(H[:-1], H[-1]), "for class C%d" % (len(H) - 1))
    issues = pure_oracle(H)
    print("oracle           :", issues or "agree")
    return 1 if issues else 0
  if d.get("kind") == "attr":
    job = A.rebuild_attr_job({"id": 0, "mode": "attr", "H": d["H"], "spec": d["spec"], "probes": d["probes"]})
    out = run_inproc(job)
    print(job["text"])
    print("cpython :", job["cpy"])
    print("pytype  : errors=%s" % out["errors"])
    print("\n".join(l for l in out["pyi"].split("\n") if re.match(r"^p\w+: ", l)))
    known = {e["fingerprint"] for e in proposed_findings()} | set(res.known)
    issues = [i for i in A.judge_attr(job, out) if i[0] != "not-explorable"]
    print("oracle  :", issues or "agree")
    return 1 if issues else 0
  if d.get("kind") == "generic":
    job = A.build_generic_job(0, d["G"], d["attrs"])
    out = run_inproc(job)
    print(job["text"])
    print("cpython : fail=%s %s mros=%s" % (job["fail"], job["cpy_msg"], job["cpy_mros"]))
    print("pytype  : errors=%s" % out["errors"])
    print("observed compute_mro:", A.observed_gtable(job, out))
    issues = [i for i in A.judge_generic(job, out) if i[0] != "not-explorable"]
    print("oracle  :", issues or "agree")
    return 1 if issues else 0
  H = g.truncate_at_first_failure(d["H"])[0]
  job = make_job(0, d["mode"], H, d["attrs"][:len(H)], d.get("style", 0), d.get("history"))
  out = run_inproc(job)
  print(job["text"] if job["mode"] == "source" else job["pyi"] + "---\n" + job["text"])
  print("cpython :", g.run_in_cpython(job["oracle_text"]))
  print("pytype  : errors=%s" % out["errors"])
  print(out["pyi"])
  issues = [i for i in judge(job, out) if i[0] != "not-explorable"]
  print("oracle  :", issues or "agree")
  return 1 if issues else 0
