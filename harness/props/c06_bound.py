"""C06 — bounded / constrained TypeVars in the class table (Conv/Bound.v): correspondence and direct oracle.

Every batch is an upstream stub with four plain classes C0..C3 and four generic classes C4..C7 whose TypeVars are
declared with a bound (`T = TypeVar('T', bound=X)`), constraints (`TypeVar('T', A, B)`) or neither; X / A / B are plain
classes, containers of them, or a bare generic class of lower index (so upper values recurse through the table).
Constants `x_i: T_i` mention the generic classes BARE (top level, type arguments, tuple elements, union members, and
— outside the theorem's `clean` fragment — below Callable[..] / type[..]).  B is `from A import x_i as y_i`.

  correspondence:typevar-upper-values   pyi text -> parser -> loader: every template entry's TypeParameter.upper_value
                                        equals Bound.upper_value of the generated declaration (computed in Coq), and
                                        the declaration survives Print -> parse (printer / parser legs)
  correspondence:bounded-model          the definition of y_i handed to Optimize equals Bound.downstream_b, exactly
  theorem-instance                      table_ok / clean_top / wf_top(expand_top) are evaluated in Coq per case; when they
                                        hold the model itself must satisfy bounded_conv_out_id_table
  oracle (implementation only)          B's final type of y_i is T_i with every bare generic class replaced by the class
                                        parameterised by its TypeVars' upper values (Python-side expansion, independent
                                        of the Coq model), for every case in the theorem's fragment
"""
import os
import time

import common
import c06_lib as L

WORK = os.path.join(common.BUILD, "c06", "bound")
GEN_IDS = [36, 37, 38, 39]          # C4..C7
FUEL = 6
HEADER = ("From Coq Require Import List NArith Bool.\nFrom PV Require Import Conv.Model Conv.Bound.\n"
          "Import ListNotations.\nOpen Scope N_scope.\nOpen Scope bool_scope.\n"
          "Definition teq (x y : ty) := match ty_cmp x y with Eq => true | _ => false end.\n"
          "Definition deq (a b : tydef) := match a, b with DConst x, DConst y | DAlias x, DAlias y => teq x y "
          "| _, _ => false end.\n")


# ---------------------------------------------------------------------------------------------
# generator

def gen_decl(r, idx, allow_class_level):
  """one TypeVar declaration for class index idx (4..7): (constraints tuple, bound or None)."""
  lower = [("cls", 32 + j) for j in range(4, idx)]         # bare generic classes of lower index
  plain = [("cls", 32 + r.randrange(4)), ("cls", r.choice([10, 11, 14, 12]))]
  x = r.random()
  if x < 0.22:
    return ((), None)
  if x < 0.62:
    y = r.random()
    if y < 0.35:
      b = r.choice(plain)
    elif y < 0.55 and lower:
      b = r.choice(lower)
    elif y < 0.70:
      b = ("gen", 6, (r.choice(plain + lower),))
    elif y < 0.80:
      b = ("gen", 7, (("cls", 11), r.choice(plain + lower)))
    elif y < 0.88:
      b = ("tup", (r.choice(plain), r.choice(plain + lower)))
    elif y < 0.94 and allow_class_level:
      b = ("call", (r.choice(plain + lower),), ("cls", 10))
    else:
      b = ("union", (r.choice(plain[:1] + lower[:1]), ("cls", L.NONE_ID)))      # bound=Optional[..]
    return ((), b)
  # constraints: 2-3 members with pairwise different base classes
  pool = [("cls", 10), ("cls", 11), ("cls", 14), ("cls", 32 + r.randrange(4)), ("gen", 6, (("cls", 10),)),
          ("cls", L.NONE_ID), ("tup", (("cls", 10), ("cls", 11)))] + lower[:1]
  ms, used = [], set()
  for m in r.sample(pool, r.choice([2, 2, 3])):
    if L.base(m) not in used:
      used.add(L.base(m))
      ms.append(m)
  if len(ms) < 2:
    ms = [("cls", 10), ("cls", 11)]
  return (tuple(ms), None)


def gen_table(r, allow_class_level):
  """{class id: [decl per template entry]} for C4..C7; 1-2 type parameters each, at least two bounded classes."""
  while True:
    tbl = {}
    for idx in range(4, 8):
      n = r.choice([1, 1, 1, 2])
      tbl[32 + idx] = [gen_decl(r, idx, allow_class_level) for _ in range(n)]
    if sum(1 for ds in tbl.values() if any(d != ((), None) for d in ds)) >= 2:
      return tbl


def upper_py(d):
  cs, b = d
  if cs:
    return ("union", tuple(cs))
  return b if b is not None else L.ANY


def inject(r, t, p):
  """replace plain user classes by bare generic classes (C_i -> C_{i+4}) with probability p per occurrence."""
  k = t[0]
  if k == "cls":
    if 32 <= t[1] < 36 and r.random() < p:
      return ("cls", t[1] + 4)
    return t
  if k == "gen":
    return ("gen", t[1], tuple(inject(r, q, p) for q in t[2]))
  if k == "tup":
    return ("tup", tuple(inject(r, q, p) for q in t[1]))
  if k == "call":
    return ("call", tuple(inject(r, q, p) for q in t[1]), inject(r, t[2], p))
  if k == "union":
    return ("union", tuple(inject(r, q, p) for q in t[1]))
  return t


FIXED = [("cls", 36), ("cls", 37), ("cls", 38), ("cls", 39), ("gen", 6, (("cls", 36),)),
         ("union", (("cls", 37), ("cls", L.NONE_ID))), ("tup", (("cls", 38), ("cls", 39))),
         ("gen", 7, (("cls", 11), ("union", (("cls", 36), ("cls", 10))))),
         ("call", (("cls", 36),), ("cls", 37)), ("gen", L.TYPE_ID, (("cls", 38),)),
         ("gen", L.CALLABLE_ID, (L.ANY, ("cls", 39)))]


def gen_types(r, n):
  out = list(FIXED)
  while len(out) < n:
    t = inject(r, L.gen_type(r, r.choice([1, 2, 2, 3, 4]), True), 0.6)
    out.append(t)
  return out


# ---------------------------------------------------------------------------------------------
# text

def tv_name(c, i):
  return "T%d_%d" % (c - 32, i)


def prelude(tbl):
  out = ["from typing import Any, Callable, Generic, TypeVar, Union\n"]
  out += ["class C%d: ...\n" % i for i in range(4)]
  for c in sorted(tbl):
    for i, (cs, b) in enumerate(tbl[c]):
      n = tv_name(c, i)
      if cs:
        out.append("%s = TypeVar('%s', %s)\n" % (n, n, ", ".join(L.to_text(m) for m in cs)))
      elif b is not None:
        out.append("%s = TypeVar('%s', bound=%s)\n" % (n, n, L.to_text(b)))
      else:
        out.append("%s = TypeVar('%s')\n" % (n, n))
    out.append("class C%d(Generic[%s]): ...\n" % (c - 32, ", ".join(tv_name(c, i) for i in range(len(tbl[c])))))
  return "".join(out)


def coq_decl(d):
  cs, b = d
  return "(mkTV [%s] %s)" % ("; ".join(L.to_coq(m) for m in cs), "None" if b is None else "(Some %s)" % L.to_coq(b))


def coq_table(tbl):
  return "[" + "; ".join("(%d, map upper_value [%s])" % (c, "; ".join(coq_decl(d) for d in tbl[c])) for c in sorted(tbl)) + "]"


# ---------------------------------------------------------------------------------------------
# Python-side expectation (the oracle; independent of the Coq model)

def py_expand(t, up, depth=8):
  """t with bare generic classes replaced by the class parameterised by its upper values, in instance positions."""
  if depth < 0:
    return ("err",)
  k = t[0]
  def var(p):
    if p[0] == "union":
      return ("union", tuple(py_expand(m, up, depth) for m in p[1]))
    return py_expand(p, up, depth)
  if k == "cls":
    us = up.get(t[1])
    if us and any(u != L.ANY for u in us):
      return ("gen", t[1], tuple(
          ("union", tuple(py_expand(m, up, depth - 1) for m in u[1])) if u[0] == "union" else py_expand(u, up, depth - 1)
          for u in us))
    return t
  if k == "gen":
    if t[1] == L.TYPE_ID:
      return t
    return ("gen", t[1], tuple(var(p) for p in t[2]))
  if k == "tup":
    return ("tup", tuple(var(p) for p in t[1]))
  return t


def py_expand_top(t, up):
  if t[0] == "union":
    return ("union", tuple(py_expand(m, up) for m in t[1]))
  return py_expand(t, up)


# ---------------------------------------------------------------------------------------------

def run_batch(tbl, types, workdir):
  """real code: loaded definitions, pre/post-Optimize definitions of y_i, errors, loaded upper values, printed stub."""
  from pytype.pytd import pytd_utils
  from pytype.pyi import parser
  from pytype import config
  saved = L.PRELUDE
  L.PRELUDE = prelude(tbl)
  try:
    lines = ["x%d: %s" % (i, L.to_text(t)) for i, t in enumerate(types)]
    loaded, pre, post, errs = L.round_trip(lines, workdir)
    stub_text = L.PRELUDE + "\n".join(lines) + "\n"
  finally:
    L.PRELUDE = saved
  # the TypeVar declarations as the parser / printer see them: parse, read upper values, print, parse again
  opts = parser.PyiOptions(python_version=(3, 12))
  def uppers_of(text):
    from pytype.pytd import visitors as _v
    ast = parser.parse_string(text, name="A", filename="A.pyi", options=opts)
    ast = ast.Visit(_v.AdjustTypeParameters())        # fills Class.template (what the loader does after parsing)
    out = {}
    for c in ast.classes:
      try:
        cid = L.cls_id(c.name)
      except L.Untranslatable:
        continue
      if cid in tbl:
        out[cid] = [L.from_pytd(t.type_param.upper_value) for t in c.template]
    return out, ast
  up1, ast = uppers_of(stub_text)
  from pytype.pytd import visitors
  printed = pytd_utils.Print(ast.Visit(visitors.RemoveNamePrefix()))
  up2, _ = uppers_of(printed)
  return lines, loaded, pre, post, errs, up1, up2, printed


def oracle_violates(tbl, t, workdir):
  """implementation only: is B's final type of `x: t` different from the expanded type?  Returns (bad, post)."""
  up = {c: [upper_py(d) for d in ds] for c, ds in tbl.items()}
  try:
    _, loaded, _, post, _, _, _, _ = run_batch(tbl, [t], workdir)
  except Exception:  # pylint: disable=broad-except
    return False, None
  l, q = loaded[0], post[0]
  if not l or not q or l[0] != "const" or q[0] not in ("const", "alias"):
    return False, q
  got = q[1] if q[0] == "const" else ("gen", L.TYPE_ID, (q[1],))
  return L.py_canon(got) != L.py_canon(py_expand_top(l[1], up)), q


def has_class_level_bounded(t, up, level=False):
  """a class with bounded TypeVars below Callable[..] / type[..] / a nested union (outside the theorem's fragment)."""
  k = t[0]
  if k == "cls":
    return level and any(u != L.ANY for u in up.get(t[1], []))
  if k == "gen":
    return any(has_class_level_bounded(p, up, level or t[1] == L.TYPE_ID) for p in t[2])
  if k == "tup":
    return any(has_class_level_bounded(p, up, level) for p in t[1])
  if k == "call":
    return any(has_class_level_bounded(p, up, True) for p in t[1]) or has_class_level_bounded(t[2], up, True)
  if k == "union":
    return any(has_class_level_bounded(p, up, level) for p in t[1])
  return False


def leg(res, r, n_tables, n_types, report):
  os.makedirs(WORK, exist_ok=True)
  t0 = time.time()
  bodies, metas = [], []
  n_cases = n_upper_bad = 0
  for b in range(n_tables):
    tbl = gen_table(r, allow_class_level=(b % 3 == 2))
    types = gen_types(r, n_types)
    try:
      lines, loaded, pre, post, errs, up1, up2, printed = run_batch(tbl, types, os.path.join(WORK, "b"))
    except Exception as e:  # pylint: disable=broad-except
      res.obligation("bounded:batch-%d" % b, False, "%s: %s\n%s" % (type(e).__name__, str(e)[:300], prelude(tbl)))
      continue
    fatal = [e for e in errs if e[0] in ("import-error", "pyi-error")]
    if fatal:
      report(res, "downstream-error:" + fatal[0][0], "downstream module reports %r for a stub with bounded TypeVars" % (fatal[0],),
             {"kind": "bound", "prelude": prelude(tbl), "stub": lines})
    want_up = {c: [upper_py(d) for d in ds] for c, ds in tbl.items()}
    usable = []
    for t, l, p, q in zip(types, loaded, pre, post):
      if l and l[0] == "const" and p and p[0] in ("const", "alias") and q and q[0] in ("const", "alias"):
        usable.append((l[1], p, q))
    n_cases += len(usable)
    body = HEADER
    body += "Definition tbl := %s.\nDefinition U := table_of builtin_arity tbl.\n" % coq_table(tbl)
    body += "Definition loaded_up : list (cid * list ty) := [%s].\n" % "; ".join(
        "(%d, [%s])" % (c, "; ".join(L.to_coq(u) for u in up1.get(c, [("err",)]))) for c in sorted(tbl))
    body += "Definition printed_up : list (cid * list ty) := [%s].\n" % "; ".join(
        "(%d, [%s])" % (c, "; ".join(L.to_coq(u) for u in up2.get(c, [("err",)]))) for c in sorted(tbl))
    body += ("Definition same_tbl (a b : list (cid * list ty)) := Nat.eqb (length a) (length b) && forallb (fun xy => "
             "(fst (fst xy) =? fst (snd xy)) && Nat.eqb (length (snd (fst xy))) (length (snd (snd xy))) && "
             "forallb (fun uv => teq (fst uv) (snd uv)) (combine (snd (fst xy)) (snd (snd xy)))) (combine a b).\n")
    body += "Eval vm_compute in (same_tbl tbl loaded_up, same_tbl tbl printed_up, table_ok builtin_arity tbl).\n"
    body += "Definition cases := [\n" + ";\n".join(
        "(%s, %s)" % (L.to_coq(T), L.def_to_coq(p)) for T, p, _ in usable) + "].\n"
    body += "Eval vm_compute in map (fun c => deq (downstream_b U %d (fst c)) (snd c)) cases.\n" % FUEL
    body += ("Eval vm_compute in map (fun c => clean_top U (fst c) && wf_top (arity_of U) (expand_top U %d (fst c))) cases.\n"
             % FUEL)
    body += ("Eval vm_compute in map (fun c => teq (canon (def_ty (downstream_b U %d (fst c)))) "
             "(canon (expand_top U %d (fst c)))) cases.\n" % (FUEL, FUEL))
    bodies.append(("c06_bound_%d" % b, body))
    metas.append((tbl, usable, want_up, up1, up2, lines, printed))
  impl_s = time.time() - t0
  outs = common.run_cases_parallel(bodies)
  n_mism = n_hyp = n_oracle = n_oracle_bad = n_tbl_ok = 0
  hist = {}
  for (name, _), (tbl, usable, want_up, up1, up2, lines, printed) in zip(bodies, metas):
    ok, out = outs[name]
    terms = common.parse_coq_eval(out) if ok else []
    if not ok or len(terms) != 4:
      res.obligation("model-run:" + name, False, out[-1500:])
      continue
    flags = [x.strip() == "true" for x in terms[0].strip("() ").split(",")]
    same_loaded, same_printed, tok = flags
    n_tbl_ok += tok
    if not (same_loaded and same_printed):
      n_upper_bad += 1
      # direct oracle on the implementation: the upper value of a declared TypeVar, read back from the stub text
      which = "parser/loader" if not same_loaded else "printer"
      got = up1 if not same_loaded else up2
      diff = [(c, i) for c in sorted(tbl) for i in range(len(tbl[c]))
              if i >= len(got.get(c, [])) or L.py_canon(got[c][i]) != L.py_canon(want_up[c][i])]
      c, i = diff[0] if diff else (sorted(tbl)[0], 0)
      decl = [ln for ln in prelude(tbl).split("\n") if ln.startswith(tv_name(c, i) + " =")]
      report(res, "typevar-upper-value-lost:" + which,
             "TypeVar declared `%s`: its upper value after the %s is %s, expected %s" %
             (decl[0] if decl else "?", which,
              L.to_text(got[c][i]) if i < len(got.get(c, [])) else "missing", L.to_text(want_up[c][i])),
             {"kind": "bound", "prelude": prelude(tbl), "stub": [], "printed": printed[:1500]})
    eq_pre, hyp, thm = ([b.strip() == "true" for b in t.strip().strip("[]").split(";") if b.strip()] for t in terms[1:])
    if not (len(eq_pre) == len(hyp) == len(thm) == len(usable)):
      res.obligation("model-run:" + name, False, "result length mismatch")
      continue
    for (T, p, q), e, h, th in zip(usable, eq_pre, hyp, thm):
      bounded_here = py_expand_top(T, want_up) != T
      res.count(("bound", L.shape(T), h) if bounded_here else None)
      hk = ("bounded" if bounded_here else "plain") + ("/thm" if h and tok else "/outside")
      hist[hk] = hist.get(hk, 0) + 1
      if h and tok:
        n_hyp += 1
        if not th:
          res.obligation("theorem-instance:bounded:" + L.to_text(T), False,
                         "hypotheses of bounded_conv_out_id_table hold but the model does not satisfy its conclusion")
      got = q[1] if q[0] == "const" else ("gen", L.TYPE_ID, (q[1],))
      # direct oracle (implementation vs Python-side expansion); in the theorem's fragment, or class-level-free
      if (h and tok) or not has_class_level_bounded(T, want_up):
        import c06
        if c06.in_corr_domain(T) and not c06.contains_bare_type(T) and h:
          n_oracle += 1
          if L.py_canon(got) != L.py_canon(py_expand_top(T, want_up)):
            n_oracle_bad += 1
            wd = os.path.join(WORK, "shrink")
            small = L.shrink_type(T, lambda c: oracle_violates(tbl, c, wd)[0], 15.0)
            bad, q2 = oracle_violates(tbl, small, wd)
            if not bad:
              small, q2 = T, q
            report(res, "bare-generic-not-upper-value:" + L.shape(small, 1),
                   "upstream `x: %s` (TypeVars: %s) is seen downstream as `%s`, expected `%s`" %
                   (L.to_text(small), "; ".join(ln for ln in prelude(tbl).split("\n") if "TypeVar(" in ln and "import" not in ln),
                    L.to_text(q2[1]) if q2 else "?", L.to_text(py_expand_top(small, want_up))),
                   {"kind": "bound", "prelude": prelude(tbl), "stub": ["x0: " + L.to_text(small)],
                    "expected": L.to_text(py_expand_top(small, want_up))})
      if not e:
        n_mism += 1
        if n_mism <= 3:
          res.obligation("correspondence:bounded:%s" % L.to_text(T)[:60], False,
                         "T=%s with TypeVars %s: real convert->output gives %s %s, Bound.downstream_b differs" %
                         (L.to_text(T), "; ".join(ln for ln in prelude(tbl).split("\n") if "TypeVar(" in ln and "import" not in ln),
                          p[0], L.to_text(p[1])))
  res.obligation("correspondence:typevar-upper-values", n_upper_bad == 0,
                 "%d of %d tables: TypeParameter.upper_value after parse / after Print+parse differs from Bound.upper_value"
                 % (n_upper_bad, len(metas)))
  res.obligation("correspondence:bounded-model-vs-convert/output", n_mism == 0 and len(metas) == n_tables,
                 "%d of %d types disagree (%d of %d tables ran)" % (n_mism, n_cases, len(metas), n_tables))
  res.obligation("bounded:theorem-fragment-exercised", n_hyp >= max(1, n_cases // 4),
                 "only %d of %d cases meet the hypotheses of bounded_conv_out_id_table" % (n_hyp, n_cases))
  res.extra["bound_tables"] = len(metas)
  res.extra["bound_tables_ok"] = n_tbl_ok
  res.extra["bound_types_compared"] = n_cases
  res.extra["bound_in_theorem_fragment"] = n_hyp
  res.extra["bound_oracle_checked"] = n_oracle
  res.extra["bound_oracle_bad"] = n_oracle_bad
  res.extra["bound_hist"] = hist
  res.extra["bound_impl_s"] = round(impl_s, 1)


def replay(rep, workdir):
  """re-runs a stored stub (prelude with TypeVar declarations + constants) on the implementation."""
  from pytype.pyi import parser
  saved = L.PRELUDE
  L.PRELUDE = rep["prelude"]
  bad = False
  try:
    opts = parser.PyiOptions(python_version=(3, 12))
    ast = parser.parse_string(rep["prelude"], name="A", filename="A.pyi", options=opts)
    print("--- upstream stub\n" + rep["prelude"] + "\n".join(rep["stub"]))
    for c in ast.classes:
      if c.template:
        print("template of %s: upper values %s" % (c.name, [str(t.type_param.upper_value) for t in c.template]))
    if rep["stub"]:
      loaded, pre, post, errs = L.round_trip(rep["stub"], workdir)
      for line, l, q in zip(rep["stub"], loaded, post):
        print("upstream  :", line)
        print("downstream:", q and (q[0], L.to_text(q[1]) if q[0] in ("const", "alias") else q[1]))
        if "expected" in rep:
          print("expected  :", rep["expected"])
          if not q or q[0] != "const" or L.to_text(L.py_canon(q[1])) != L.to_text(L.py_canon(_parse_expected(rep, workdir))):
            bad = True
      print("downstream errors:", errs)
      bad = bad or any(e[0] in ("import-error", "pyi-error") for e in errs)
    else:
      bad = True
      print("printed:\n" + rep.get("printed", ""))
  finally:
    L.PRELUDE = saved
  return bad


def _parse_expected(rep, workdir):
  """the expected type text, read by pytype's own parser in the context of the prelude."""
  from pytype.pyi import parser
  opts = parser.PyiOptions(python_version=(3, 12))
  ast = parser.parse_string(rep["prelude"] + "e0: " + rep["expected"] + "\n", name="A", filename="A.pyi", options=opts)
  return L.from_pytd(ast.Lookup("A.e0").type)
