"""C04 helpers: generator of pytd units, projection of real pytd objects to the Coq model's `value`,
deep shuffling, and the Python-side monitors of the theorems' hypotheses.

Everything that touches pytype is imported lazily (the caller bootstraps first)."""
import hashlib


def _pytd():
  from pytype.pytd import pytd  # pylint: disable=import-outside-toplevel
  return pytd


# --------------------------------------------------------------------------------------------
# projection: real object -> nested python tuples -> Coq term

LONG = 160   # atoms longer than this are abbreviated (prefix + digest); see proj() on why this is safe


def proj(x, full=False):
  """('A', cls, str, repr) | ('C', name, None|(clsname, str(cls))) | ('T', [..]) | ('N', cls, [(f, v)..])"""
  pytd = _pytd()
  if isinstance(x, tuple):
    return ("T", [proj(c, full) for c in x])
  if isinstance(x, pytd.ClassType):
    if x.cls is None:
      return ("C", x.name, None)
    s = str(x.cls)
    if not full and len(s) > LONG:
      # str(cls) is the msgspec repr of the whole class (tens of kB for builtins).  It only ever
      # decides a comparison between two ClassTypes of the same `name`, and `Class(name='...'` is
      # within the kept prefix; the digest keeps different classes different.
      s = s[:LONG] + "#" + hashlib.sha256(s.encode()).hexdigest()[:16]
    return ("C", x.name, (str(x.cls.name), s))
  if isinstance(x, pytd.Node):
    return ("N", type(x).__name__, [(f, proj(getattr(x, f), full)) for f in x.__struct_fields__])
  return ("A", type(x).__name__, str(x), repr(x))


def proj_nocache(x):
  """proj() without the private lookup caches (they are filled lazily by later Lookup() calls)."""
  p = proj(x)

  def strip(q):
    if q[0] == "T":
      return ("T", [strip(c) for c in q[1]])
    if q[0] == "N":
      return ("N", q[1], [(f, strip(v)) for f, v in q[2] if f != "_name2item"])
    return q
  return strip(p)


def cstr(s):
  if not s.isascii():
    raise ValueError("non-ascii string in projection: %r" % s)
  return '"' + s.replace('"', '""') + '"'


class StrTable:
  """Interns strings of one cases file: every distinct string literal is parsed by Coq once."""

  def __init__(self):
    self.ids = {}

  def ref(self, s):
    if s not in self.ids:
      self.ids[s] = "s%d" % len(self.ids)
    return self.ids[s]

  def defs(self):
    # Coq's string-literal interpretation is superlinear in the literal's length (a 45 kB literal
    # takes 11 s), so long strings are written as a concatenation of short chunks.
    out = []
    for s, n in self.ids.items():
      if len(s) <= 240:
        out.append("Definition %s : string := %s." % (n, cstr(s)))
      else:
        chunks = [cstr(s[i:i + 200]) for i in range(0, len(s), 200)]
        out.append("Definition %s : string := String.concat EmptyString [%s]." % (n, "; ".join(chunks)))
    return "\n".join(out)


def to_coq(p, st):
  k = p[0]
  if k == "A":
    return "(VAtom %s %s %s)" % (st.ref(p[1]), st.ref(p[2]), st.ref(p[3]))
  if k == "C":
    if p[2] is None:
      return "(VClassType %s None)" % st.ref(p[1])
    return "(VClassType %s (Some (%s, %s)))" % (st.ref(p[1]), st.ref(p[2][0]), st.ref(p[2][1]))
  if k == "T":
    return "(VTup [" + "; ".join(to_coq(c, st) for c in p[1]) + "])"
  return "(VNode %s [" % st.ref(p[1]) + "; ".join("(%s, %s)" % (st.ref(f), to_coq(v, st)) for f, v in p[2]) + "])"


def prepr(p):
  """repr() recomputed from the projection (python mirror of the model's [repr]; used to compare
  model output with the implementation's repr on abbreviated atoms)."""
  k = p[0]
  if k == "A":
    return p[3]
  if k == "C":
    return "ClassType%s(%s)" % ("<unresolved>" if p[2] is None else "", p[1])
  if k == "T":
    items = [prepr(c) for c in p[1]]
    if len(items) == 1:
      return "(" + items[0] + ",)"
    return "(" + ", ".join(items) + ")"
  return p[1] + "(" + ", ".join("%s=%s" % (f, prepr(v)) for f, v in p[2]) + ")"


# --------------------------------------------------------------------------------------------
# the sorted-field table of CanonicalOrderingVisitor, read from its source (fail-closed)

def sorted_field_table():
  """{class: {field: 'sorted' | 'kept' | 'conditional'}} extracted from the Visit* methods' AST."""
  import ast  # pylint: disable=import-outside-toplevel
  import inspect  # pylint: disable=import-outside-toplevel
  import textwrap  # pylint: disable=import-outside-toplevel
  from pytype.pytd import pytd_visitors  # pylint: disable=import-outside-toplevel
  src = textwrap.dedent(inspect.getsource(pytd_visitors.CanonicalOrderingVisitor))
  cls = ast.parse(src).body[0]
  table = {}
  helpers = []

  def is_sorted_of(node, field):
    """tuple(sorted(node.<field>)) / sorted(node.<field>)"""
    if isinstance(node, ast.Call) and isinstance(node.func, ast.Name) and node.func.id == "tuple" and len(node.args) == 1:
      node = node.args[0]
    return (isinstance(node, ast.Call) and isinstance(node.func, ast.Name) and node.func.id == "sorted"
            and len(node.args) == 1 and not node.keywords and ast.unparse(node.args[0]) == "node." + field)

  for fn in cls.body:
    if not isinstance(fn, ast.FunctionDef):
      continue
    if not fn.name.startswith("Visit"):
      helpers.append(fn.name)
      continue
    cname = fn.name[len("Visit"):]
    entry = {}
    # local `x = sorted(node.f)` / `x = node.f` under an if: conditional
    cond_locals = {}
    for st in fn.body:
      if isinstance(st, ast.If):
        tgt = {}
        for branch in (st.body, st.orelse):
          for a in branch:
            if not (isinstance(a, ast.Assign) and len(a.targets) == 1 and isinstance(a.targets[0], ast.Name)):
              raise ValueError("C04 translator: unexpected statement in %s: %s" % (fn.name, ast.unparse(a)))
            tgt.setdefault(a.targets[0].id, []).append(a.value)
        for name, vals in tgt.items():
          cond_locals[name] = (ast.unparse(st.test), vals)
      elif isinstance(st, ast.Return):
        call = st.value
        if not isinstance(call, ast.Call):
          raise ValueError("C04 translator: %s does not return a call" % fn.name)
        for kw in call.keywords:
          f, v = kw.arg, kw.value
          if ast.unparse(v) == "node." + f:
            entry[f] = "kept"
          elif is_sorted_of(v, f):
            entry[f] = "sorted"
          elif isinstance(v, ast.IfExp) and is_sorted_of(v.body, f) and ast.unparse(v.test) == "node.%s is not None" % f \
              and ast.unparse(v.orelse) == "None":
            entry[f] = "sorted"        # sorted unless None
          elif (isinstance(v, ast.Call) and ast.unparse(v.func) == "tuple" and len(v.args) == 1
                and isinstance(v.args[0], ast.Name) and v.args[0].id in cond_locals):
            test, vals = cond_locals[v.args[0].id]
            kinds = sorted("sorted" if is_sorted_of(x, f) else "kept" if ast.unparse(x) == "node." + f else "?" for x in vals)
            if kinds != ["kept", "sorted"] or test != "self._PreserveConstantsOrdering(node)":
              raise ValueError("C04 translator: unexpected conditional for %s.%s" % (cname, f))
            entry[f] = "conditional"
          else:
            raise ValueError("C04 translator: cannot classify %s.%s = %s" % (cname, f, ast.unparse(v)))
        if ast.unparse(call.func) == "pytd.UnionType" and len(call.args) == 1 and is_sorted_of(call.args[0], "type_list"):
          entry["type_list"] = "sorted"
        elif call.args:
          raise ValueError("C04 translator: positional args in %s" % fn.name)
        entry["__ctor__"] = ast.unparse(call.func)
      elif isinstance(st, ast.Expr) and isinstance(st.value, ast.Constant):
        pass
      else:
        raise ValueError("C04 translator: unexpected statement in %s: %s" % (fn.name, ast.unparse(st)))
    table[cname] = entry
  table["__helpers__"] = sorted(helpers)
  return table


# what coq/Canon/Model.v (`sorts`, `resets`, `preserve_constants`) encodes
MODEL_TABLE = {
    "TypeDeclUnit": {"name": "kept", "constants": "sorted", "type_params": "sorted", "functions": "sorted",
                     "classes": "sorted", "aliases": "sorted", "__ctor__": "pytd.TypeDeclUnit"},
    "Class": {"name": "kept", "keywords": "kept", "bases": "kept", "methods": "sorted", "constants": "conditional",
              "decorators": "sorted", "classes": "sorted", "slots": "sorted", "template": "kept",
              "__ctor__": "pytd.Class"},
    "Signature": {"template": "sorted", "exceptions": "sorted", "__ctor__": "node.Replace"},
    "UnionType": {"type_list": "sorted", "__ctor__": "pytd.UnionType"},
    "__helpers__": ["_PreserveConstantsOrdering"],
}
MODEL_VISIT_CLASS_NAMES = sorted([
    "Alias", "Annotated", "CallableType", "Class", "Concatenate", "Constant", "Function", "GenericType",
    "IntersectionType", "Literal", "ParamSpec", "Parameter", "Signature", "TemplateItem", "TupleType",
    "TypeDeclUnit", "TypeParameter", "UnionType", "_SetOfTypes"])
SORTED_CLASSES = ("TypeDeclUnit", "Class", "Signature", "UnionType")


def preserve_src_digest():
  """ast.dump digests of the helper functions the model mirrors by hand (drift sentinel)."""
  import ast, inspect, textwrap  # pylint: disable=import-outside-toplevel,multiple-imports
  from pytype.pytd import pytd_visitors, pytd  # pylint: disable=import-outside-toplevel
  from pytype.pytd.parse import node  # pylint: disable=import-outside-toplevel
  from pytype.errors import errors  # pylint: disable=import-outside-toplevel
  out = {}
  for name, obj in [("_PreserveConstantsOrdering", pytd_visitors.CanonicalOrderingVisitor._PreserveConstantsOrdering),
                    ("IsNamedTuple", pytd_visitors.IsNamedTuple),
                    ("Node.__lt__", node.Node.__lt__), ("Node._ToTuple", node.Node._ToTuple),
                    ("_VisitNode", node._VisitNode), ("_FlattenTypes", pytd._FlattenTypes),
                    ("unique_sorted_errors", errors.ErrorLog.unique_sorted_errors),
                    ("_sorted_errors", errors.ErrorLog._sorted_errors),
                    ("_compare_traceback_strings", errors._compare_traceback_strings),
                    ("get_unique_representation", errors.Error.get_unique_representation),
                    ("_position", errors.Error._position)]:
    src = textwrap.dedent(inspect.getsource(obj))
    out[name] = hashlib.sha256(ast.dump(ast.parse(src)).encode()).hexdigest()[:16]
  return out


# digests of the code the hand-written model was last validated against (drift sentinel: a change
# escalates the quick run to the thorough case counts, it is never a verdict by itself)
VALIDATED_DIGESTS = {
    "_PreserveConstantsOrdering": "b30fd5f083b5ac3e", "IsNamedTuple": "2c51335adc86130b",
    "Node.__lt__": "539b6012c08ea83d", "Node._ToTuple": "01a89a67d14d4559", "_VisitNode": "852e9c047053cec8",
    "_FlattenTypes": "9b0721e7129b9309", "unique_sorted_errors": "f2c89dab3463b4d9",
    "_sorted_errors": "1ca6086aa54f4730", "_compare_traceback_strings": "7ab251261957b7a2",
    "get_unique_representation": "5b37ea4acf7d2849", "_position": "aab52cfaf70cf2ac",
}


# --------------------------------------------------------------------------------------------
# monitors evaluated on REAL pytd objects (independent of the Coq model)

def is_sorted_field(node, fname, preserve):
  cn = type(node).__name__
  if cn == "TypeDeclUnit":
    return fname in ("constants", "type_params", "functions", "classes", "aliases")
  if cn == "Class":
    return fname in ("methods", "decorators", "classes", "slots") or (fname == "constants" and not preserve)
  if cn == "Signature":
    return fname in ("template", "exceptions")
  if cn == "UnionType":
    return fname == "type_list"
  return False


def _key_equal(a, b):
  """Neither a < b nor b < a under the implementation's own ordering."""
  return not (a < b) and not (b < a)


def monitor(inp, outp, visitor_names):
  """Checks, on real trees, the hypotheses the theorems make about implementation outputs.

  `inp` is what was handed to CanonicalOrderingVisitor, `outp` what it returned.  `keys_separate inp` talks
  about the *visited* children of every node the visitor reaches; those are exactly the items of the
  corresponding tuples of `outp` (for set-types: minus the ==-duplicates _FlattenTypes dropped, which the
  input-side check covers).  So:
    on inp : no sorted class below a class the visitor skips; set-types are normalised (flat, fixed by
             _FlattenTypes); members that are == are identical after canonicalisation (eq_separated)
    on outp: every sorted tuple is in nondecreasing order; sort-key-equal neighbours are identical
             (key_separated - key-equality is an equivalence, so neighbours suffice); only Nodes / str slots
  Returns (problems, stats); a problem is (kind, path, detail)."""
  pytd = _pytd()
  from pytype.pytd import pytd_visitors  # pylint: disable=import-outside-toplevel
  problems = []
  stats = {"sorted_tuples": 0, "sibling_pairs": 0, "key_equal_pairs": 0, "set_types": 0, "nodes": 0}
  visitor = pytd_visitors.CanonicalOrderingVisitor

  def walk(x, path, below_unvisited, is_out):
    if isinstance(x, tuple):
      for i, c in enumerate(x):
        walk(c, path + "[%d]" % i, below_unvisited, is_out)
      return
    if not isinstance(x, pytd.Node) or isinstance(x, pytd.ClassType):
      return
    cn = type(x).__name__
    if not is_out:
      stats["nodes"] += 1
      if below_unvisited and cn in SORTED_CLASSES:
        problems.append(("unreached-sorted-class", path, "%s below %s" % (cn, below_unvisited)))
    unvis = below_unvisited or (None if cn in visitor_names else cn)
    if isinstance(x, pytd._SetOfTypes):  # pylint: disable=protected-access
      tl = x.type_list
      if not is_out:
        stats["set_types"] += 1
        ft = pytd._FlattenTypes(tl)  # pylint: disable=protected-access
        if len(ft) != len(tl) or any(a is not b for a, b in zip(ft, tl)):
          problems.append(("set-not-normal", path, repr(x)[:300]))
      for i, a in enumerate(tl):
        if isinstance(a, pytd._SetOfTypes):  # pylint: disable=protected-access
          problems.append(("set-not-flat", path, repr(x)[:300]))
        for b in tl[i + 1:]:
          if a == b:
            ca, cb = (a, b) if is_out else (a.Visit(visitor()), b.Visit(visitor()))
            if proj(ca, True) != proj(cb, True):
              problems.append(("eq-not-separated", path, "%r == %r" % (a, b)))
    preserve = False
    if cn == "Class":
      preserve = visitor()._PreserveConstantsOrdering(x)  # pylint: disable=protected-access
    for fname in x.__struct_fields__:
      child = getattr(x, fname)
      if fname == "_name2item":
        continue
      if is_out and isinstance(child, tuple) and is_sorted_field(x, fname, preserve) and unvis is None:
        stats["sorted_tuples"] += 1
        for it in child:
          if not (isinstance(it, pytd.Node) or (fname == "slots" and isinstance(it, str))):
            problems.append(("unsortable-item", path + "." + fname, repr(it)[:200]))
        for a, b in zip(child, child[1:]):
          stats["sibling_pairs"] += 1
          try:
            if b < a:
              problems.append(("not-canonical", path + "." + fname, "%s after %s" % (repr(b)[:200], repr(a)[:200])))
            elif not a < b:
              stats["key_equal_pairs"] += 1
              same = (a == b) if isinstance(a, str) else proj(a, True) == proj(b, True)
              if not same:
                problems.append(("keys-not-separate", path + "." + fname,
                                 "sort-key-equal but different siblings: %s  |  %s" % (repr(a)[:400], repr(b)[:400])))
          except TypeError as e:
            problems.append(("unsortable-item", path + "." + fname, str(e)))
      walk(child, path + "." + fname, unvis, is_out)

  walk(inp, "", None, False)
  walk(outp, "", None, True)
  return problems, stats


# --------------------------------------------------------------------------------------------
# deep shuffle of the tuples the visitor sorts (on real objects)

def deep_shuffle(r, x):
  pytd = _pytd()
  from pytype.pytd import pytd_visitors  # pylint: disable=import-outside-toplevel
  if isinstance(x, tuple):
    return tuple(deep_shuffle(r, c) for c in x)
  if not isinstance(x, pytd.Node) or isinstance(x, pytd.ClassType):
    return x
  cn = type(x).__name__
  if cn not in MODEL_VISIT_CLASS_NAMES:
    return x
  kw = {}
  preserve = False
  if cn == "Class":
    preserve = pytd_visitors.CanonicalOrderingVisitor()._PreserveConstantsOrdering(x)  # pylint: disable=protected-access
  for fname in x.__struct_fields__:
    if fname == "_name2item":
      continue
    child = getattr(x, fname)
    new = deep_shuffle(r, child)
    if isinstance(new, tuple) and is_sorted_field(x, fname, preserve):
      lst = list(new)
      r.shuffle(lst)
      new = tuple(lst)
    kw[fname] = new
  return type(x)(**kw)


# --------------------------------------------------------------------------------------------
# generator of pytd units (real constructors only)

NAMES = ["a", "ab", "b", "B", "_x", "x", "x1", "x10", "x2", "Zed", "m.A", "m.B", "builtins.int", "builtins.str",
         "foo", "Foo", "bar", "T", "_T0", "_T1", "K", "V", "__init__", "f", "g"]


class Gen:
  """Random pytd fragments.  `tie` raises the probability of equal names / equal printed forms."""

  def __init__(self, r, tie=0.25, size=1.0):
    self.r = r
    self.tie = tie
    self.size = size
    self.pytd = _pytd()
    self.small_classes = []
    self.used = []

  def name(self, pool=None):
    r = self.r
    if self.used and r.random() < self.tie:
      return r.choice(self.used)
    n = r.choice(pool or NAMES)
    if r.random() < 0.3:
      n += str(r.randrange(4))
    self.used.append(n)
    return n

  def small_class(self):
    pytd = self.pytd
    if self.small_classes and self.r.random() < 0.7:
      return self.r.choice(self.small_classes)
    c = pytd.Class(name=self.name(["A", "m.A", "Base", "C"]), keywords=(), bases=(), methods=(),
                   constants=(pytd.Constant(name=self.name(), type=pytd.NamedType("int")),) if self.r.random() < 0.5 else (),
                   classes=(), decorators=(), slots=None, template=())
    self.small_classes.append(c)
    return c

  def ty(self, depth=0):
    pytd, r = self.pytd, self.r
    k = r.random()
    if depth >= 3 or k < 0.32:
      return pytd.NamedType(self.name())
    if k < 0.40:
      return pytd.ClassType(self.name())                      # unresolved
    if k < 0.47:
      c = self.small_class()
      return pytd.ClassType(c.name if r.random() < 0.9 else self.name(), c)   # resolved (sometimes renamed)
    if k < 0.50:
      return pytd.LateType(self.name(), recursive=r.random() < 0.3)
    if k < 0.54:
      return pytd.AnythingType()
    if k < 0.56:
      return pytd.NothingType()
    if k < 0.70:
      kind = r.choice([pytd.GenericType, pytd.GenericType, pytd.TupleType, pytd.CallableType])
      base = r.choice([pytd.NamedType, pytd.ClassType, pytd.LateType])(self.name(["list", "dict", "tuple", "typing.Callable", "m.A"]))
      return kind(base_type=base, parameters=tuple(self.ty(depth + 1) for _ in range(r.randint(1, 3))))
    if k < 0.88:
      n = r.randint(1, 5)
      members = [self.ty(depth + 1) for _ in range(n)]
      if members and r.random() < self.tie:
        members.append(r.choice(members))                      # exact duplicate -> constructor dedups
      cls = pytd.UnionType if r.random() < 0.85 else pytd.IntersectionType
      return cls(tuple(members))
    if k < 0.92:
      v = r.choice([1, 2, 10, "a", "b", "a'b", True, False])
      return pytd.Literal(v)
    if k < 0.95:
      return pytd.Annotated(base_type=self.ty(depth + 1), annotations=tuple(r.choice(["'x'", "'y'", "1"]) for _ in range(r.randint(1, 2))))
    return self.type_param()

  def type_param(self):
    pytd, r = self.pytd, self.r
    cls = pytd.TypeParameter if r.random() < 0.85 else pytd.ParamSpec
    k = r.random()
    constraints, bound = (), None
    if k < 0.25:
      constraints = tuple(self.ty(2) for _ in range(r.randint(2, 3)))
    elif k < 0.45:
      bound = self.ty(2)
    scope = r.choice([None, None, "m", "m.A", "m.f"])
    return cls(name=self.name(["T", "_T0", "_T1", "K", "V", "P"]), constraints=constraints, bound=bound, scope=scope)

  def constant(self):
    pytd, r = self.pytd, self.r
    value = r.choice([None, None, None, 1, "v", True, pytd.AnythingType(), ("a", "b")])
    return pytd.Constant(name=self.name(), type=self.ty(), value=value)

  def param(self, name=None):
    pytd, r = self.pytd, self.r
    return pytd.Parameter(name=name or self.name(["x", "y", "z", "self", "cls"]), type=self.ty(1),
                          kind=r.choice(list(pytd.ParameterKind)), optional=r.random() < 0.3,
                          mutated_type=self.ty(2) if r.random() < 0.1 else None)

  def signature(self):
    pytd, r = self.pytd, self.r
    return pytd.Signature(
        params=tuple(self.param() for _ in range(r.randint(0, 3))),
        starargs=self.param("args") if r.random() < 0.15 else None,
        starstarargs=self.param("kwargs") if r.random() < 0.15 else None,
        return_type=self.ty(1),
        exceptions=tuple(self.ty(2) for _ in range(r.choice([0, 0, 0, 1, 2, 3]))),
        template=tuple(pytd.TemplateItem(self.type_param()) for _ in range(r.choice([0, 0, 1, 2, 3]))))

  def alias(self, deco=False):
    pytd, r = self.pytd, self.r
    if deco:
      n = r.choice(["dataclasses.dataclass", "attr.s", "final", "m.deco", "property", "staticmethod"])
      return pytd.Alias(name=n, type=pytd.NamedType(n))
    k = r.random()
    if k < 0.6:
      t = self.ty(1)
    elif k < 0.75:
      t = self.constant()
    elif k < 0.9:
      t = pytd.Module(name=self.name(), module_name=self.name(["os", "os.path", "m"]))
    else:
      t = self.function(small=True)
    return pytd.Alias(name=self.name(), type=t)

  def function(self, small=False):
    pytd, r = self.pytd, self.r
    nsig = 1 if small else r.choice([1, 1, 1, 2, 3])
    return pytd.Function(
        name=self.name(["f", "g", "__init__", "m", "run"]),
        signatures=tuple(self.signature() for _ in range(nsig)),
        kind=r.choice(list(pytd.MethodKind)),
        flags=r.choice([pytd.MethodFlag.NONE, pytd.MethodFlag.NONE, pytd.MethodFlag.ABSTRACT, pytd.MethodFlag.FINAL,
                        pytd.MethodFlag.ABSTRACT | pytd.MethodFlag.COROUTINE]),
        decorators=tuple(self.alias(deco=True) for _ in range(r.choice([0, 0, 0, 1, 2]))))

  def cls(self, depth=0):
    pytd, r = self.pytd, self.r
    k = r.random()
    bases = [self.ty(2) for _ in range(r.choice([0, 1, 1, 2]))]
    decorators = []
    if k < 0.15:
      bases.append(pytd.NamedType(r.choice(["typing.NamedTuple", "collections.namedtuple"])))
    elif k < 0.3:
      decorators.append(pytd.Alias(name=r.choice(["dataclasses.dataclass", "attr.s"]), type=pytd.NamedType("x")))
    elif k < 0.35:
      # namedtuple-ness through the .name property of a GenericType base
      bases.append(pytd.GenericType(pytd.NamedType("typing.NamedTuple"), (pytd.NamedType("int"),)))
    for _ in range(r.choice([0, 0, 1, 2])):
      decorators.append(self.alias(deco=True))
    n = lambda hi: r.randint(0, max(1, int(hi * self.size)))
    c = pytd.Class(
        name=self.name(["A", "B", "C", "m.A", "Base"]),
        keywords=tuple((r.choice(["metaclass", "total"]), self.ty(2)) for _ in range(r.choice([0, 0, 0, 1, 2]))),
        bases=tuple(bases),
        methods=tuple(self.function() for _ in range(n(3))),
        constants=tuple(self.constant() for _ in range(n(4))),
        classes=tuple(self.cls(depth + 1) for _ in range(r.choice([0, 0, 1, 2]) if depth < 2 else 0)),
        decorators=tuple(decorators),
        slots=None if r.random() < 0.5 else tuple(self.name(["a", "b", "z", "_x", "B"]) for _ in range(r.randint(0, 4))),
        template=tuple(pytd.TemplateItem(self.type_param()) for _ in range(r.choice([0, 0, 1, 2]))))
    if r.random() < 0.3 and (c.methods or c.constants or c.classes) and len(repr(c)) < 1200:
      c.Get("zz")     # populate the lookup cache: it is part of the class's sort key
    return c

  def unit(self):
    pytd, r = self.pytd, self.r
    n = lambda hi: r.randint(0, max(1, int(hi * self.size)))
    u = pytd.TypeDeclUnit(
        name="m",
        constants=tuple(self.constant() for _ in range(n(5))),
        type_params=tuple(self.type_param() for _ in range(n(3))),
        classes=tuple(self.cls() for _ in range(n(3))),
        functions=tuple(self.function() for _ in range(n(3))),
        aliases=tuple(self.alias() for _ in range(n(3))))
    if r.random() < 0.2 and len(repr(u)) < 2500:
      u.Get("zz")
    return u
