"""C12 helpers: translation of real objects / msgpack trees to the driver's token language, generators of
stub ASTs in the emitted dialect, negative values, raw msgpack mutations and the ==/hash pool."""
import enum

import msgspec


class Untranslatable(Exception):
  pass


_FLOATS = {}


def _float_id(x):
  return _FLOATS.setdefault(repr(x), len(_FLOATS) + 1)


def hexs(s):
  return "s" + s.encode("utf-8").hex()


def value_tokens(o, out=None, cls_ref=None, drop_cache=False):
  """Real Python object -> token list of the model's [value].

  cls_ref (a dict) is given for resolved type nodes: a ClassType's class pointer may lead anywhere (also back to
  the node), so it is rendered as an opaque reference 'cls#k' (k = identity of the class object) instead of
  being followed.  Only the ==/hash leg uses this; there the model ignores the field, as the code does."""
  top = out is None
  if top:
    out = []
  if o is None:
    out.append("N")
  elif o is True:
    out.append("T")
  elif o is False:
    out.append("F")
  elif isinstance(o, enum.Flag):
    out += ["(", "f", hexs(type(o).__name__), "I%d" % o.value, ")"]
  elif isinstance(o, enum.Enum):
    if not isinstance(o.value, str):
      raise Untranslatable(repr(o))
    out += ["(", "e", hexs(type(o).__name__), hexs(o.value), ")"]
  elif isinstance(o, int):
    out.append("I%d" % o)
  elif isinstance(o, float):
    out.append("D%d" % _float_id(o))
  elif isinstance(o, str):
    out.append(hexs(o))
  elif isinstance(o, tuple):
    out += ["(", "t"]
    for x in o:
      value_tokens(x, out, cls_ref, drop_cache)
    out.append(")")
  elif isinstance(o, list):
    out += ["(", "l"]
    for x in o:
      value_tokens(x, out, cls_ref, drop_cache)
    out.append(")")
  elif isinstance(o, (set, frozenset)):
    out += ["(", "S"]
    try:
      items = sorted(o)
    except TypeError:
      items = sorted(o, key=repr)
    for x in items:
      value_tokens(x, out, cls_ref, drop_cache)
    out.append(")")
  elif isinstance(o, dict):
    out += ["(", "d"]
    for k, v in o.items():
      if not isinstance(k, str):
        raise Untranslatable("dict key %r" % (k,))
      out.append(hexs(k))
      value_tokens(v, out, cls_ref, drop_cache)
    out.append(")")
  elif isinstance(o, msgspec.Struct):
    out += ["(", "c", hexs(type(o).__name__)]
    for f in o.__struct_fields__:
      v = getattr(o, f)
      if cls_ref is not None and f == "cls" and type(o).__name__ == "ClassType" and v is not None:
        out.append(hexs("cls#%d" % cls_ref.setdefault(id(v), len(cls_ref))))
      elif drop_cache and f == "_name2item":
        # the lookup cache is private state, not part of the preparation model's input (see c12_prep.py)
        out += ["(", "d", ")"]
      else:
        value_tokens(v, out, cls_ref, drop_cache)
    out.append(")")
  else:
    raise Untranslatable(repr(type(o)))
  return out


def mval_tokens(o, out=None):
  """Generic msgpack tree (msgspec.msgpack.decode without a type) -> token list of the model's [mval]."""
  if out is None:
    out = []
  if o is None:
    out.append("N")
  elif o is True:
    out.append("T")
  elif o is False:
    out.append("F")
  elif isinstance(o, int):
    out.append("I%d" % o)
  elif isinstance(o, float):
    out.append("D%d" % _float_id(o))
  elif isinstance(o, str):
    out.append(hexs(o))
  elif isinstance(o, (list, tuple)):
    out += ["(", "a"]
    for x in o:
      mval_tokens(x, out)
    out.append(")")
  elif isinstance(o, dict):
    out += ["(", "m"]
    for k, v in o.items():
      if not isinstance(k, str):
        raise Untranslatable("map key %r" % (k,))
      out.append(hexs(k))
      mval_tokens(v, out)
    out.append(")")
  else:
    raise Untranslatable(repr(type(o)))
  return out


def to_expr(o):
  """A Python expression (over the names pytd, serialize_ast, force) that rebuilds o."""
  if isinstance(o, enum.Flag):
    return "pytd.%s(%d)" % (type(o).__name__, o.value)
  if isinstance(o, enum.Enum):
    return "pytd.%s.%s" % (type(o).__name__, o.name)
  if isinstance(o, msgspec.Struct):
    mod = "serialize_ast" if type(o).__name__ == "SerializableAst" else "pytd"
    args = ", ".join("%s=%s" % (f, to_expr(getattr(o, f))) for f in o.__struct_fields__
                     if not (f == "_name2item" and not getattr(o, f)))
    if type(o).__name__ in ("UnionType", "IntersectionType") and not _ctor_is_identity(o):
      # the constructor flattens and drops duplicates; rebuild exactly what is there
      return "force(%s.%s(type_list=(pytd.AnythingType(),)), 'type_list', %s)" % (
          mod, type(o).__name__, to_expr(o.type_list))
    return "%s.%s(%s)" % (mod, type(o).__name__, args)
  if isinstance(o, tuple):
    return "(" + "".join(to_expr(x) + ", " for x in o) + ")"
  if isinstance(o, list):
    return "[" + ", ".join(to_expr(x) for x in o) + "]"
  if isinstance(o, (set, frozenset)):
    return "{" + ", ".join(to_expr(x) for x in sorted(o, key=repr)) + "}" if o else "set()"
  if isinstance(o, dict):
    return "{" + ", ".join("%r: %s" % (k, to_expr(v)) for k, v in o.items()) + "}"
  return repr(o)


def _ctor_is_identity(u):
  try:
    return type(u)(type_list=u.type_list).type_list == u.type_list and all(
        x is y or type(x) is type(y) for x, y in zip(type(u)(type_list=u.type_list).type_list, u.type_list))
  except Exception:  # pylint: disable=broad-except
    return False


def force(obj, field, value):
  setattr(obj, field, value)
  return obj


# ---------------------------------------------------------------------------------------------
# generators

NAMES = ["int", "str", "builtins.int", "builtins.str", "typing.List", "foo.Bar", "T", "K", "x", "_p",
         "mod.sub.Cls", "été", "Ω", "A", "B", "C", "D", "builtins.NoneType", "P"]


class Gen:
  """Random ASTs of the emitted dialect, built directly from the node classes."""

  def __init__(self, pytd, r):
    self.p = pytd
    self.r = r

  def name(self):
    return self.r.choice(NAMES)

  def base(self):
    p, r = self.p, self.r
    k = r.random()
    if k < 0.5:
      return p.NamedType(self.name())
    if k < 0.85:
      return p.ClassType(self.name())
    return p.LateType(self.name(), r.random() < 0.3)

  def types(self, depth, lo=0, hi=3):
    return tuple(self.type(depth) for _ in range(self.r.randint(lo, hi)))

  def tparam(self, depth):
    p, r = self.p, self.r
    cls = p.ParamSpec if r.random() < 0.25 else p.TypeParameter
    kw = {}
    if r.random() < 0.3:
      kw["constraints"] = self.types(depth - 1, 1, 3)
    if r.random() < 0.3:
      kw["bound"] = self.type(depth - 1)
    d = r.random()
    if d < 0.15:
      kw["default"] = self.type(depth - 1)
    elif d < 0.3:
      kw["default"] = self.types(depth - 1, 0, 2)
    if r.random() < 0.5:
      kw["scope"] = self.name()
    return cls(name=r.choice(["T", "K", "V", "P", "_T"]), **kw)

  def literal_value(self, depth):
    p, r = self.p, self.r
    k = r.randrange(6)
    if k == 0:
      return r.choice([0, 1, -1, 7, 255, 256, 65536, 2**31, -2**31 - 1, 2**63 - 1, -2**63, 2**64 - 1])
    if k == 1:
      return r.choice(["", "a", "hello world", "é", "quote\"s", "x" * 40])
    if k == 2:
      return r.random() < 0.5
    if k == 3:
      return p.NamedType(self.name() + ".MEMBER")
    if k == 4:
      return self.constant(depth - 1)
    return p.ClassType(self.name())

  def type(self, depth):
    p, r = self.p, self.r
    if depth <= 0:
      k = r.randrange(7)
      if k == 0:
        return p.NamedType(self.name())
      if k == 1:
        return p.ClassType(self.name())
      if k == 2:
        return p.LateType(self.name(), r.random() < 0.3)
      if k == 3:
        return p.AnythingType()
      if k == 4:
        return p.NothingType()
      if k == 5:
        return p.ParamSpecArgs(self.name()) if r.random() < 0.5 else p.ParamSpecKwargs(self.name())
      return p.Literal(self.literal_value(0) if depth == 0 else 3)
    k = r.randrange(11)
    if k == 0:
      return self.type(0)
    if k == 1:
      return p.Literal(self.literal_value(depth))
    if k == 2:
      return p.Annotated(self.type(depth - 1), tuple(r.choice(["'a'", "1", "{'tag': 'x'}"]) for _ in range(r.randint(0, 2))))
    if k == 3:
      return self.tparam(depth)
    if k == 4:
      return p.UnionType(self.types(depth - 1, 1, 4))
    if k == 5:
      return p.IntersectionType(self.types(depth - 1, 1, 3))
    if k == 6:
      return p.GenericType(self.base(), self.types(depth - 1, 0, 3))
    if k == 7:
      return p.TupleType(self.base(), self.types(depth - 1, 0, 3))
    if k == 8:
      return p.CallableType(self.base(), self.types(depth - 1, 1, 3))
    if k == 9:
      return p.Concatenate(self.base(), self.types(depth - 1, 1, 3))
    return p.GenericType(self.base(), (p.UnionType(self.types(depth - 1, 1, 3)),))

  def constant(self, depth):
    p, r = self.p, self.r
    k = r.randrange(8)
    value = [None, None, p.AnythingType(), r.choice([0, 5, -3, 2**40]), r.choice(["v", ""]),
             r.random() < 0.5, tuple(r.choice(["a", "b", "__all__"]) for _ in range(r.randint(0, 3))), None][k]
    return p.Constant(name=self.name(), type=self.type(max(depth, 0)), value=value)

  def param(self, depth):
    p, r = self.p, self.r
    return p.Parameter(name=r.choice(["self", "x", "y", "args", "kw"]), type=self.type(depth),
                       kind=r.choice(list(p.ParameterKind)), optional=r.random() < 0.4,
                       mutated_type=self.type(depth - 1) if r.random() < 0.2 else None)

  def template(self, depth):
    return tuple(self.p.TemplateItem(self.tparam(depth)) for _ in range(self.r.randint(0, 2)))

  def signature(self, depth):
    p, r = self.p, self.r
    return p.Signature(params=tuple(self.param(depth) for _ in range(r.randint(0, 3))),
                       starargs=self.param(depth) if r.random() < 0.3 else None,
                       starstarargs=self.param(depth) if r.random() < 0.3 else None,
                       return_type=self.type(depth), exceptions=self.types(depth - 1, 0, 2),
                       template=self.template(depth - 1))

  def decorators(self):
    p, r = self.p, self.r
    return tuple(p.Alias(name=n, type=p.NamedType(n) if r.random() < 0.6 else p.ClassType(n))
                 for n in r.sample(["final", "typing.overload", "attr.s", "dataclasses.dataclass", "deco"],
                                   r.randint(0, 2)))

  def function(self, depth):
    p, r = self.p, self.r
    flags = p.MethodFlag(r.choice([1, 1, 1, 2, 4, 8, 3, 10, 15, 0, 6]))
    return p.Function(name=r.choice(["f", "g", "__init__", "m.f", "prop"]),
                      signatures=tuple(self.signature(depth) for _ in range(r.randint(1, 3))),
                      kind=r.choice(list(p.MethodKind)), flags=flags, decorators=self.decorators())

  def alias(self, depth):
    p, r = self.p, self.r
    k = r.randrange(4)
    target = [lambda: self.type(depth), lambda: self.constant(depth), lambda: self.function(depth),
              lambda: p.Module(name=self.name(), module_name=self.name())][k]()
    return p.Alias(name=self.name(), type=target)

  def klass(self, depth, nest=1):
    p, r = self.p, self.r
    return p.Class(name=r.choice(["A", "B", "m.C", "Outer.Inner"]),
                   keywords=tuple((k, self.type(depth - 1)) for k in r.sample(["metaclass", "total"], r.randint(0, 2))),
                   bases=self.types(depth, 0, 3),
                   methods=tuple(self.function(depth) for _ in range(r.randint(0, 3))),
                   constants=tuple(self.constant(depth) for _ in range(r.randint(0, 3))),
                   classes=tuple(self.klass(depth - 1, nest - 1) for _ in range(r.randint(0, 2))) if nest > 0 else (),
                   decorators=self.decorators(),
                   slots=tuple(r.sample(["a", "b", "c", "_d"], r.randint(0, 3))) if r.random() < 0.3 else None,
                   template=self.template(depth - 1))

  def unit(self, depth):
    p, r = self.p, self.r
    return p.TypeDeclUnit(name=r.choice(["m", "pkg.mod", "foo"]),
                          constants=tuple(self.constant(depth) for _ in range(r.randint(0, 4))),
                          type_params=tuple(self.tparam(depth) for _ in range(r.randint(0, 3))),
                          classes=tuple(self.klass(depth) for _ in range(r.randint(0, 3))),
                          functions=tuple(self.function(depth) for _ in range(r.randint(0, 3))),
                          aliases=tuple(self.alias(depth) for _ in range(r.randint(0, 3))))


# ---------------------------------------------------------------------------------------------
# values that a field's declared type cannot restore (each is (label, builder))

def negatives(pytd, serialize_ast):
  p = pytd
  nt = p.NamedType
  par = lambda **kw: p.Parameter(**{**dict(name="x", type=nt("int"), kind=p.ParameterKind.REGULAR,
                                           optional=False, mutated_type=None), **kw})
  fun = lambda **kw: p.Function(**{**dict(name="f", signatures=(), kind=p.MethodKind.METHOD), **kw})
  sig = lambda **kw: p.Signature(**{**dict(params=(), starargs=None, starstarargs=None, return_type=nt("int"),
                                           exceptions=(), template=()), **kw})
  cls = lambda **kw: p.Class(**{**dict(name="C", keywords=(), bases=(), methods=(), constants=(), classes=(),
                                       decorators=(), slots=None, template=()), **kw})
  unit = lambda **kw: p.TypeDeclUnit(**{**dict(name="m", constants=(), type_params=(), classes=(), functions=(),
                                               aliases=()), **kw})
  sast = lambda **kw: serialize_ast.SerializableAst(**{**dict(ast=unit(), dependencies=[], late_dependencies=[],
                                                              src_path=None, metadata=[]), **kw})

  def cached_class():
    c = cls(methods=(fun(),))
    c.Lookup("f")
    return c

  def empty_union():
    return force(p.UnionType((nt("a"),)), "type_list", ())

  def nested_union():
    return force(p.UnionType((nt("a"),)), "type_list", (p.UnionType((nt("b"), nt("c"))), nt("a")))

  def dup_union():
    return force(p.UnionType((nt("a"),)), "type_list", (nt("a"), nt("a")))

  return [
      ("literal-float", lambda: p.Literal(1.5)),
      ("literal-none", lambda: p.Literal(None)),
      ("literal-tuple", lambda: p.Literal(("a",))),
      ("literal-int-2^70", lambda: p.Literal(2**70)),
      ("literal-int-2^64", lambda: p.Literal(2**64)),
      ("literal-int-below-min", lambda: p.Literal(-2**63 - 1)),
      ("literal-module", lambda: p.Literal(p.Module("a", "b"))),
      ("constant-float", lambda: p.Constant("x", nt("float"), 2.5)),
      ("constant-int-tuple", lambda: p.Constant("x", nt("t"), (1, 2))),
      ("constant-str-list", lambda: p.Constant("x", nt("t"), ["a"])),
      ("constant-nothing", lambda: p.Constant("x", nt("t"), p.NothingType())),
      ("constant-named", lambda: p.Constant("x", nt("t"), nt("y"))),
      ("constant-type-is-module", lambda: p.Constant("x", p.Module("a", "b"))),
      ("param-type-module", lambda: par(type=p.Module("a", "b"))),
      ("param-type-base-Type", lambda: par(type=p.Type())),
      ("param-type-constant", lambda: par(type=p.Constant("c", nt("int")))),
      ("param-type-none", lambda: par(type=None)),
      ("param-type-str", lambda: par(type="int")),
      ("param-optional-int", lambda: par(optional=1)),
      ("param-optional-none", lambda: par(optional=None)),
      ("param-kind-str", lambda: par(kind="regular")),
      ("param-kind-other-enum", lambda: par(kind=p.MethodKind.METHOD)),
      ("param-name-int", lambda: par(name=3)),
      ("param-name-none", lambda: par(name=None)),
      ("generic-base-union", lambda: p.GenericType(p.UnionType((nt("a"), nt("b"))), (nt("c"),))),
      ("generic-base-generic", lambda: p.GenericType(p.GenericType(nt("a"), ()), (nt("c"),))),
      ("generic-params-list", lambda: p.GenericType(nt("a"), [nt("c")])),
      ("generic-params-none", lambda: p.GenericType(nt("a"), None)),
      ("tuple-base-anything", lambda: p.TupleType(p.AnythingType(), (nt("c"),))),
      ("annotated-ann-int", lambda: p.Annotated(nt("a"), (1,))),
      ("annotated-ann-list", lambda: p.Annotated(nt("a"), ["x"])),
      ("late-recursive-int", lambda: p.LateType("x", 1)),
      ("late-recursive-none", lambda: p.LateType("x", None)),
      ("classtype-cls-set", lambda: p.ClassType("C", cls())),
      ("classtype-cls-str", lambda: p.ClassType("C", "C")),          # Any restores a str: conforms
      ("classtype-cls-list", lambda: p.ClassType("C", ["C", 1, None])),   # Any restores it: conforms
      ("classtype-cls-tuple", lambda: p.ClassType("C", ("C",))),
      ("class-cache-filled", cached_class),
      ("class-slots-str", lambda: cls(slots="ab")),
      ("class-slots-list", lambda: cls(slots=["a"])),
      ("class-bases-module", lambda: cls(bases=(p.Module("a", "b"),))),
      ("class-keywords-triple", lambda: cls(keywords=(("a", nt("b"), 1),))),
      ("class-keywords-list-pair", lambda: cls(keywords=(["a", nt("b")],))),
      ("class-methods-constant", lambda: cls(methods=(p.Constant("c", nt("int")),))),
      ("class-template-tparam", lambda: cls(template=(p.TypeParameter("T"),))),
      ("function-kind-str", lambda: fun(kind="method")),
      ("function-flags-int", lambda: fun(flags=3)),
      ("function-flags-zero", lambda: fun(flags=p.MethodFlag(0))),          # a valid flag value: conforms
      ("function-flags-all", lambda: fun(flags=p.MethodFlag(15))),         # conforms
      ("function-sigs-list", lambda: fun(signatures=[])),
      ("function-deco-named", lambda: fun(decorators=(nt("d"),))),
      ("signature-starargs-str", lambda: sig(starargs="args")),
      ("signature-starargs-type", lambda: sig(starargs=nt("a"))),
      ("signature-ret-none", lambda: sig(return_type=None)),
      ("signature-template-tparam", lambda: sig(template=(p.ParamSpec("P"),))),
      ("template-item-named", lambda: p.TemplateItem(nt("T"))),
      ("tparam-scope-int", lambda: p.TypeParameter("T", scope=3)),
      ("tparam-default-list", lambda: p.TypeParameter("T", default=[nt("a")])),
      ("tparam-default-str", lambda: p.TypeParameter("T", default="a")),
      ("tparam-bound-tuple", lambda: p.TypeParameter("T", bound=(nt("a"),))),
      ("alias-type-parameter", lambda: p.Alias("a", par())),
      ("alias-type-class", lambda: p.Alias("a", cls())),
      ("union-empty", empty_union),
      ("union-nested", nested_union),
      ("union-duplicate", dup_union),
      ("unit-consts-list", lambda: unit(constants=[])),
      ("unit-classes-function", lambda: unit(classes=(fun(),))),
      ("sast-deps-int-set", lambda: sast(dependencies=[("a", {1, 2})])),
      ("sast-deps-tuple", lambda: sast(dependencies=(("a", {"b"}),))),
      ("sast-deps-list-pair", lambda: sast(dependencies=[["a", {"b"}]])),
      ("sast-deps-list-set", lambda: sast(dependencies=[("a", ["b"])])),
      ("sast-metadata-tuple", lambda: sast(metadata=("a",))),
      ("sast-metadata-int", lambda: sast(metadata=[1])),
      ("sast-src-int", lambda: sast(src_path=3)),
      ("sast-ast-class", lambda: sast(ast=cls())),
  ]


# ---------------------------------------------------------------------------------------------
# mutations of a generic msgpack tree (what a decoder may be handed that no encoder produced)

def tree_paths(t, path=()):
  yield path, t
  if isinstance(t, dict):
    for k, v in t.items():
      yield from tree_paths(v, path + (k,))
  elif isinstance(t, list):
    for i, v in enumerate(t):
      yield from tree_paths(v, path + (i,))


def tree_set(t, path, new):
  if not path:
    return new
  k = path[0]
  if isinstance(t, dict):
    return {kk: (tree_set(v, path[1:], new) if kk == k else v) for kk, v in t.items()}
  return [tree_set(v, path[1:], new) if i == k else v for i, v in enumerate(t)]


def mutate_tree(r, tree, tag="_struct_type"):
  """Returns (label, mutated tree) or None."""
  nodes = list(tree_paths(tree))
  maps = [(p, n) for p, n in nodes if isinstance(n, dict) and tag in n]
  arrs = [(p, n) for p, n in nodes if isinstance(n, list)]
  strs = [(p, n) for p, n in nodes if isinstance(n, str)]
  ints = [(p, n) for p, n in nodes if isinstance(n, int) and not isinstance(n, bool)]
  k = r.randrange(16)
  if k == 0 and maps:
    p, n = r.choice(maps)
    return "drop-tag", tree_set(tree, p, {a: b for a, b in n.items() if a != tag})
  if k == 1 and maps:
    p, n = r.choice(maps)
    new = r.choice(["Module", "Type", "Node", "Bogus", "Class", "NamedType", "Constant", "_SetOfTypes", 3, None])
    return "retag:%s" % new, tree_set(tree, p, {**n, tag: new})
  if k == 2 and maps:
    p, n = r.choice(maps)
    return "unknown-key", tree_set(tree, p, {**n, "zz_unknown": r.choice([1, None, "s", [1, {"a": 2}]])})
  if k == 3 and maps:
    p, n = r.choice(maps)
    items = list(n.items())
    r.shuffle(items)
    return "reorder-keys", tree_set(tree, p, dict(items))
  if k == 4 and maps:
    p, n = r.choice(maps)
    ks = [a for a in n if a != tag]
    if ks:
      d = r.choice(ks)
      return "drop-field:%s" % d, tree_set(tree, p, {a: b for a, b in n.items() if a != d})
  if k == 5 and maps:
    p, n = r.choice(maps)
    extra = r.choice([("value", None), ("cls", None), ("recursive", False), ("flags", 1), ("decorators", []),
                      ("constraints", []), ("bound", None), ("default", None), ("scope", None), ("_name2item", {}),
                      ("type_list", []), ("flags", r.choice([0, 15, 16, -1, -16, -17, 7])),
                      ("kind", r.choice(["bogus", "method", "regular", 1])), ("recursive", 1), ("optional", 1)])
    return "set-field:%s=%r" % extra, tree_set(tree, p, {**n, extra[0]: extra[1]})
  if k == 6:
    us = [(p, n) for p, n in maps if n.get(tag) in ("UnionType", "IntersectionType") and n.get("type_list")]
    if us:
      p, n = r.choice(us)
      tl = list(n["type_list"])
      which = r.randrange(4)
      if which == 0:
        tl = tl + [tl[0]]
      elif which == 1:
        tl = [{tag: r.choice(["UnionType", "IntersectionType"]), "type_list": tl}] + tl[:1]
      elif which == 2:
        tl = []
      else:
        tl = list(reversed(tl))
      return "union-members:%d" % which, tree_set(tree, p, {**n, "type_list": tl})
  if k == 7 and strs:
    p, n = r.choice(strs)
    return "str->int", tree_set(tree, p, 7)
  if k == 8 and ints:
    p, n = r.choice(ints)
    return "int->other", tree_set(tree, p, r.choice(["7", True, 1.5, None, 2**64 - 1, -2**63]))
  if k == 9 and arrs:
    p, n = r.choice(arrs)
    return "arr->map", tree_set(tree, p, {})
  if k == 10 and arrs:
    p, n = r.choice(arrs)
    if n:
      return "arr-dup-rev", tree_set(tree, p, list(reversed(n)) + n[:1])
  if k == 11 and maps:
    p, n = r.choice(maps)
    return "map->arr", tree_set(tree, p, [])
  if k == 12 and maps:
    p, n = r.choice(maps)
    return "map->nil", tree_set(tree, p, None)
  if k == 13 and arrs:
    p, n = r.choice(arrs)
    return "arr->nil", tree_set(tree, p, None)
  if k == 14 and arrs:
    p, n = r.choice(arrs)
    return "arr-append-int", tree_set(tree, p, n + [3])
  if k == 15 and isinstance(tree, dict) and "class_type_nodes" in tree:
    ctn = tree["class_type_nodes"]
    new = r.choice([None, [], ctn[:1] if ctn else [], [{tag: "ClassType", "name": "no.such"}],
                    list(reversed(ctn)) if ctn else []])
    return "class_type_nodes", {**tree, "class_type_nodes": new}
  return None
