"""C03 — fail-closed translator: directors.py / errors.py  ->  coq/Generated/C03_ErrorClasses.v.

Reads the *source text* of $VERIF_REPO/pytype/directors/directors.py and pytype/errors/errors.py with `ast`
and regenerates the table-like part of the Coq model (error-name ids, _FUNCTION_CALL_ERRORS,
_ALL_ADJUSTABLE_ERRORS, the set of valid error names, the wildcard and the literals filter_error compares
with).  Anything that is not of the exact expected shape raises TranslateError (-> obligation failure).
"""
import ast
import os

import common


class TranslateError(Exception):
  pass


def _str_consts(node, what):
  """Tuple/List/Set display of string constants -> list of str."""
  if not isinstance(node, (ast.Tuple, ast.List, ast.Set)):
    raise TranslateError(f"{what}: expected a tuple/list/set display, got {ast.dump(node)[:120]}")
  out = []
  for e in node.elts:
    if not (isinstance(e, ast.Constant) and isinstance(e.value, str)):
      raise TranslateError(f"{what}: element is not a string literal: {ast.dump(e)[:120]}")
    out.append(e.value)
  return out


def _set_expr(node, env, what):
  """Evaluates the few set-building shapes we understand.  env: name -> frozenset of str."""
  if isinstance(node, ast.Call) and isinstance(node.func, ast.Name) and node.func.id in ("frozenset", "set") \
      and not node.keywords:
    if not node.args:
      return frozenset()
    if len(node.args) == 1:
      return frozenset(_str_consts(node.args[0], what))
  if isinstance(node, ast.Call) and isinstance(node.func, ast.Attribute) and node.func.attr == "union" \
      and not node.keywords and len(node.args) >= 1:
    base = _set_expr(node.func.value, env, what)
    for a in node.args:
      if isinstance(a, (ast.Tuple, ast.List, ast.Set)):
        base = base | frozenset(_str_consts(a, what))
      else:
        base = base | _set_expr(a, env, what)
    return base
  if isinstance(node, ast.BinOp) and isinstance(node.op, ast.BitOr):
    return _set_expr(node.left, env, what) | _set_expr(node.right, env, what)
  if isinstance(node, ast.Name) and node.id in env:
    return env[node.id]
  if isinstance(node, ast.Set):
    return frozenset(_str_consts(node, what))
  raise TranslateError(f"{what}: construct not understood: {ast.dump(node)[:200]}")


def _stores(tree, name):
  """All places where `name` is (re)bound or mutated in the module."""
  n = 0
  for node in ast.walk(tree):
    if isinstance(node, ast.Name) and node.id == name and isinstance(node.ctx, (ast.Store, ast.Del)):
      n += 1
    if isinstance(node, (ast.Global, ast.Nonlocal)) and name in node.names:
      n += 1
  return n


def _mutating_calls(tree, name):
  bad = []
  for node in ast.walk(tree):
    if isinstance(node, ast.Call) and isinstance(node.func, ast.Attribute) and \
        isinstance(node.func.value, ast.Name) and node.func.value.id == name and \
        node.func.attr in ("add", "update", "discard", "remove", "clear", "pop", "difference_update",
                           "intersection_update", "symmetric_difference_update", "__ior__", "__iand__"):
      bad.append(node)
  return bad


def translate_directors(path):
  tree = ast.parse(open(path).read())
  env = {}
  wanted = ["_FUNCTION_CALL_ERRORS", "_ALL_ADJUSTABLE_ERRORS"]
  all_errors = None
  for node in tree.body:
    if isinstance(node, ast.Assign) and len(node.targets) == 1 and isinstance(node.targets[0], ast.Name):
      nm = node.targets[0].id
      if nm in wanted:
        env[nm] = _set_expr(node.value, env, nm)
      elif nm == "_ALL_ERRORS":
        if not (isinstance(node.value, ast.Constant) and isinstance(node.value.value, str)):
          raise TranslateError("_ALL_ERRORS is not a string literal")
        all_errors = node.value.value
  for nm in wanted:
    if nm not in env:
      raise TranslateError(f"{nm}: no module-level assignment found")
    if _stores(tree, nm) != 1:
      raise TranslateError(f"{nm}: bound more than once")
    if _mutating_calls(tree, nm):
      raise TranslateError(f"{nm}: mutated after definition")
  if all_errors is None or _stores(tree, "_ALL_ERRORS") != 1:
    raise TranslateError("_ALL_ERRORS: not found or rebound")
  # literals of filter_error: error.name == "<lit>" and error.opcode_name in (<lits>)
  fe = [n for n in ast.walk(tree) if isinstance(n, ast.FunctionDef) and n.name == "filter_error"]
  if len(fe) != 1:
    raise TranslateError("filter_error: expected exactly one definition")
  name_lits, op_lits = [], []
  for node in ast.walk(fe[0]):
    if isinstance(node, ast.Compare) and len(node.ops) == 1 and isinstance(node.left, ast.Attribute) \
        and isinstance(node.left.value, ast.Name) and node.left.value.id == "error":
      if node.left.attr == "name":
        if not (isinstance(node.ops[0], ast.Eq) and isinstance(node.comparators[0], ast.Constant)
                and isinstance(node.comparators[0].value, str)):
          raise TranslateError("filter_error: comparison on error.name not understood")
        name_lits.append(node.comparators[0].value)
      elif node.left.attr == "opcode_name":
        if not isinstance(node.ops[0], ast.In):
          raise TranslateError("filter_error: comparison on error.opcode_name not understood")
        op_lits.append(tuple(_str_consts(node.comparators[0], "filter_error opcode names")))
  if len(name_lits) != 1 or len(op_lits) != 1:
    raise TranslateError(f"filter_error: expected one name literal and one opcode tuple, got {name_lits} {op_lits}")
  return {"fce": env["_FUNCTION_CALL_ERRORS"], "adj": env["_ALL_ADJUSTABLE_ERRORS"], "all": all_errors,
          "implicit_return_name": name_lits[0], "return_opcodes": op_lits[0]}


def translate_errors(path):
  """The set errors._ERROR_NAMES: initial `set()` + one .add(name) inside _error_name(name), called only as a
  decorator factory with a string literal."""
  tree = ast.parse(open(path).read())
  init = [n for n in tree.body if isinstance(n, ast.Assign) and len(n.targets) == 1
          and isinstance(n.targets[0], ast.Name) and n.targets[0].id == "_ERROR_NAMES"]
  if len(init) != 1 or _stores(tree, "_ERROR_NAMES") != 1:
    raise TranslateError("_ERROR_NAMES: expected exactly one binding")
  v = init[0].value
  if not (isinstance(v, ast.Call) and isinstance(v.func, ast.Name) and v.func.id == "set" and not v.args and not v.keywords):
    raise TranslateError("_ERROR_NAMES: initial value is not set()")
  muts = _mutating_calls(tree, "_ERROR_NAMES")
  defs = [n for n in tree.body if isinstance(n, ast.FunctionDef) and n.name == "_error_name"]
  if len(defs) != 1 or len(defs[0].args.args) != 1:
    raise TranslateError("_error_name: expected one definition with one parameter")
  param = defs[0].args.args[0].arg
  inside = [m for m in muts if any(m is x for x in ast.walk(defs[0]))]
  if len(muts) != 1 or len(inside) != 1:
    raise TranslateError("_ERROR_NAMES: mutated outside _error_name (or not exactly once)")
  m = muts[0]
  if not (m.func.attr == "add" and len(m.args) == 1 and isinstance(m.args[0], ast.Name) and m.args[0].id == param):
    raise TranslateError("_error_name: _ERROR_NAMES.add(<param>) expected")
  # the add must be an unconditional top-level statement of _error_name
  if not any(isinstance(s, ast.Expr) and s.value is m for s in defs[0].body):
    raise TranslateError("_error_name: the add is not an unconditional top-level statement")
  names = set()
  for node in ast.walk(tree):
    if isinstance(node, ast.Name) and node.id == "_error_name" and isinstance(node.ctx, ast.Load):
      pass
  uses = 0
  for node in ast.walk(tree):
    if isinstance(node, ast.Call) and isinstance(node.func, ast.Name) and node.func.id == "_error_name":
      uses += 1
      if not (len(node.args) == 1 and not node.keywords and isinstance(node.args[0], ast.Constant)
              and isinstance(node.args[0].value, str)):
        raise TranslateError("_error_name called with a non-literal argument")
      names.add(node.args[0].value)
  loads = sum(1 for n in ast.walk(tree) if isinstance(n, ast.Name) and n.id == "_error_name"
              and isinstance(n.ctx, ast.Load))
  if loads != uses:
    raise TranslateError("_error_name is used other than by a direct call")
  # is_valid_error_name must be `name in _ERROR_NAMES`
  iv = [n for n in ast.walk(tree) if isinstance(n, ast.FunctionDef) and n.name == "is_valid_error_name"]
  if len(iv) != 1:
    raise TranslateError("is_valid_error_name: expected exactly one definition")
  rets = [n for n in ast.walk(iv[0]) if isinstance(n, ast.Return)]
  ok = (len(rets) == 1 and isinstance(rets[0].value, ast.Compare) and len(rets[0].value.ops) == 1
        and isinstance(rets[0].value.ops[0], ast.In) and isinstance(rets[0].value.comparators[0], ast.Name)
        and rets[0].value.comparators[0].id == "_ERROR_NAMES" and isinstance(rets[0].value.left, ast.Name)
        and rets[0].value.left.id == iv[0].args.args[-1].arg)
  if not ok:
    raise TranslateError("is_valid_error_name: body is not `return name in _ERROR_NAMES`")
  return names


def generate():
  """Returns (table dict, coq text).  Raises TranslateError when a construct is not understood."""
  d = translate_directors(os.path.join(common.REPO, "pytype", "directors", "directors.py"))
  known = translate_errors(os.path.join(common.REPO, "pytype", "errors", "errors.py"))
  if d["all"] in known or d["all"] in d["fce"] or d["all"] in d["adj"]:
    raise TranslateError("the wildcard is also an error name")
  universe = sorted(known | d["fce"] | d["adj"] | {d["implicit_return_name"]})
  ids = {d["all"]: 0}
  for i, n in enumerate(universe, 1):
    ids[n] = i
  def lst(names):
    return "[" + "; ".join(str(ids[n]) for n in sorted(names)) + "]%N"
  lines = [
      "(* GENERATED on every run by harness/props/c03_gen.py from pytype/directors/directors.py and",
      "   pytype/errors/errors.py — do not edit, do not commit. *)",
      "From Coq Require Import NArith List.",
      "Import ListNotations.",
      "",
      "(* error names are encoded as N: 0 is the wildcard %r; ids >= %d are names pytype does not know. *)"
      % (d["all"], len(universe) + 1),
      "Definition all_errors : N := 0%N.",
      "Definition known_error_names : list N := %s." % lst(known),
      "Definition function_call_errors : list N := %s." % lst(d["fce"]),
      "Definition all_adjustable_errors : list N := %s." % lst(d["adj"]),
      "Definition implicit_return_error : N := %d%%N.   (* %s *)" % (ids[d["implicit_return_name"]], d["implicit_return_name"]),
      "Definition first_unknown_id : N := %d%%N." % (len(universe) + 1),
      "",
      "(* id table:",
  ]
  for n in universe:
    tags = []
    if n in known: tags.append("valid")
    if n in d["fce"]: tags.append("function-call")
    if n in d["adj"]: tags.append("adjustable")
    lines.append("   %3d  %-34s %s" % (ids[n], n, ",".join(tags)))
  lines.append("*)")
  text = "\n".join(lines) + "\n"
  table = {"ids": ids, "known": known, "fce": d["fce"], "adj": d["adj"], "all": d["all"],
           "implicit_return_name": d["implicit_return_name"], "return_opcodes": d["return_opcodes"],
           "first_unknown": len(universe) + 1}
  return table, text


GEN_PATH = os.path.join(common.COQ, "Generated", "C03_ErrorClasses.v")


def regenerate():
  table, text = generate()
  common.write_if_changed(GEN_PATH, text)
  return table
