"""C15 worker pool: runs jobs through c15_worker.py subprocesses with a per-job wall-clock timeout.

A job that exceeds the timeout gets its worker killed (result status "timeout"); a worker that dies on a
job (signal / abort) yields status "died" with the exit code; both restart the worker.
"""
import json
import os
import queue
import select
import subprocess
import threading
import time

import common

WORKER = os.path.join(os.path.dirname(os.path.abspath(__file__)), "c15_worker.py")


class _Worker:
  def __init__(self, k, env, tag):
    self.k = k
    self.env = env
    self.dir = os.path.join(common.BUILD, "c15", f"{tag}w{k}")
    self.p = None

  def start(self):
    self.p = subprocess.Popen([common.PY, "-u", WORKER, self.dir], stdin=subprocess.PIPE, stdout=subprocess.PIPE,
                              stderr=subprocess.DEVNULL, env=self.env, text=True, bufsize=1)
    line = self._readline(120)
    if not line or "ready" not in line:
      raise common.BuildError("c15 worker did not start: %r" % (line,))

  def _readline(self, timeout):
    """One line from the worker's stdout, or None on timeout / EOF."""
    deadline = time.time() + timeout
    fd = self.p.stdout.fileno()
    buf = getattr(self, "_buf", b"")
    while b"\n" not in buf:
      left = deadline - time.time()
      if left <= 0:
        self._buf = buf
        return None
      rl, _, _ = select.select([fd], [], [], min(left, 1.0))
      if rl:
        chunk = os.read(fd, 65536)
        if not chunk:
          self._buf = b""
          return None if not buf else buf.decode("utf8", "replace")
        buf += chunk
      elif self.p.poll() is not None:
        # drained? one more non-blocking look
        rl, _, _ = select.select([fd], [], [], 0)
        if not rl:
          self._buf = b""
          return None
    line, _, rest = buf.partition(b"\n")
    self._buf = rest
    return line.decode("utf8", "replace")

  def kill(self):
    if self.p is not None:
      try:
        self.p.kill()
        self.p.wait(timeout=10)
      except Exception:  # pylint: disable=broad-except
        pass
    self.p = None
    self._buf = b""

  def run(self, job, timeout):
    if self.p is None or self.p.poll() is not None:
      self.kill()
      self.start()
    t0 = time.time()
    try:
      self.p.stdin.write(json.dumps(job) + "\n")
      self.p.stdin.flush()
    except (BrokenPipeError, OSError):
      self.kill()
      self.start()
      self.p.stdin.write(json.dumps(job) + "\n")
      self.p.stdin.flush()
    line = self._readline(timeout)
    if line is None:
      rc = self.p.poll()
      self.kill()
      if rc is None:
        return {"id": job["id"], "status": "timeout", "t": round(time.time() - t0, 2)}
      return {"id": job["id"], "status": "died", "rc": rc, "t": round(time.time() - t0, 2)}
    try:
      return json.loads(line)
    except ValueError:
      self.kill()
      return {"id": job["id"], "status": "died", "rc": "garbled:" + line[:100], "t": round(time.time() - t0, 2)}


def run_jobs(jobs, nworkers, timeout, deadline=None, tag=""):
  """jobs: list of dicts with an "id".  Returns {id: result}; jobs not started before `deadline`
  (absolute time) are reported with status "skipped"."""
  env = common.impl_env()
  q = queue.Queue()
  for j in jobs:
    q.put(j)
  results = {}
  lock = threading.Lock()
  errors = []

  def loop(k):
    w = _Worker(k, env, tag)
    try:
      while True:
        try:
          job = q.get_nowait()
        except queue.Empty:
          break
        if deadline is not None and time.time() > deadline:
          r = {"id": job["id"], "status": "skipped"}
        else:
          r = w.run(job, timeout)
        with lock:
          results[job["id"]] = r
    except BaseException as e:  # pylint: disable=broad-except
      errors.append(repr(e))
    finally:
      w.kill()

  ts = [threading.Thread(target=loop, args=(k,), daemon=True) for k in range(nworkers)]
  for t in ts:
    t.start()
  for t in ts:
    t.join()
  if errors:
    raise common.BuildError("c15 pool: " + "; ".join(errors[:3]))
  return results
