"""C18 extension: the real FrameBase (pytype/rewrite/flow/frame_base.py) driven over small hand-built block
graphs, against the model coq/Flow/Frame.v and against a path-enumeration oracle.

A graph is a list of blocks in code.order; block = (stores, term) with stores a tuple of (name id, value) and
term one of ("fall",), ("jump", target position), ("cond", atom, target position), ("ret",).  Opcodes get
consecutive indices; a block's id is the index of its first opcode (blocks.Block does that itself).
The opcode handlers below mirror rewrite/frame.py (byte_JUMP_FORWARD, _pop_jump_if_false - with the real
conditions a / Not(a) in place of that file's placeholder); FrameBase.__init__/step/_merge_state_into are the
code under test.  Needs the typegraph extension only because pytype.blocks imports it.

Loops (extension): jump / conditional-jump targets may also point at the same or an EARLIER position of
code.order (back edges).  FrameBase executes every block once, in order; a state merged into an already executed
block is never consumed (Flow/Loop.v, frame_loop_join_exact), so the oracle follows FORWARD edges only: the walk
stops at the first enabled edge that does not go to a strictly later position.  The frame's final state
(_states[_FINAL], whose get_locals() is _final_locals) is checked against the exit environments of the NO_NEXT
blocks (ret and plain jump) on that walk (frame_final_exact).
"""
import itertools

import common
import c18

_FI = None


def frame_impl():
  global _FI
  if _FI is None:
    common.bootstrap_pytype()
    m = c18.impl()
    from pytype.blocks import blocks  # pylint: disable=import-outside-toplevel
    from pytype.pyc import opcodes  # pylint: disable=import-outside-toplevel
    from pytype.rewrite.flow import frame_base  # pylint: disable=import-outside-toplevel

    # pylint: disable=invalid-name
    class ST(opcodes.Opcode):            # a store: carries on, never last in a block
      def __init__(self, index, x, v):
        super().__init__(index=index, line=0)
        self.x, self.v = x, v

    class FALL(opcodes.Opcode):          # carries on, no jump (like any ordinary opcode ending a block)
      def __init__(self, index):
        super().__init__(index=index, line=0)

    class JUMP(opcodes.Opcode):          # flags of opcodes.JUMP_FORWARD
      _FLAGS = opcodes.HAS_JREL | opcodes.HAS_ARGUMENT | opcodes.NO_NEXT

      def __init__(self, index, argval):
        super().__init__(index=index, line=0)
        self.argval = argval

    class CJUMP(opcodes.Opcode):         # flags of opcodes.POP_JUMP_IF_FALSE
      _FLAGS = opcodes.HAS_ARGUMENT | opcodes.HAS_JREL

      def __init__(self, index, atom, argval):
        super().__init__(index=index, line=0)
        self.atom, self.argval = atom, argval

    class RET(opcodes.Opcode):           # flags of opcodes.RETURN_VALUE (NO_NEXT)
      _FLAGS = opcodes.NO_NEXT

      def __init__(self, index):
        super().__init__(index=index, line=0)

    class Frame(frame_base.FrameBase):
      def byte_ST(self, op):
        self._current_state.store_local(c18.name_str(op.x), m.V.Variable.from_value(op.v))

      def byte_FALL(self, op):
        del op

      def byte_JUMP(self, op):           # rewrite/frame.py byte_JUMP_FORWARD
        self._merge_state_into(self._current_state, op.argval)

      def byte_CJUMP(self, op):          # rewrite/frame.py _pop_jump_if_false, jump taken when the atom is false
        jump_state = self._current_state.with_condition(m.C.Not(m.Atom(op.atom)))
        self._merge_state_into(jump_state, op.argval)
        nojump_state = self._current_state.with_condition(m.Atom(op.atom))
        self._merge_state_into(nojump_state, op.next.index)

      def byte_RET(self, op):
        del op
    # pylint: enable=invalid-name

    class Code:
      def __init__(self, order):
        self.order = order

    class NS:
      pass
    ns = NS()
    ns.blocks, ns.opcodes, ns.frame_base = blocks, opcodes, frame_base
    ns.ST, ns.FALL, ns.JUMP, ns.CJUMP, ns.RET, ns.Frame, ns.Code = ST, FALL, JUMP, CJUMP, RET, Frame, Code
    _FI = ns
  return _FI


def block_ids(spec):
  ids = []
  i = 0
  for stores, _ in spec:
    ids.append(i)
    i += len(stores) + 1
  return ids


def build_code(spec):
  fi = frame_impl()
  ids = block_ids(spec)
  ops = []
  order = []
  for (stores, term), bid in zip(spec, ids):
    blk = []
    i = bid
    for x, v in stores:
      blk.append(fi.ST(i, x, v))
      i += 1
    if term[0] == "fall":
      blk.append(fi.FALL(i))
    elif term[0] == "jump":
      blk.append(fi.JUMP(i, ids[term[1]]))
    elif term[0] == "cond":
      blk.append(fi.CJUMP(i, term[1], ids[term[2]]))
    else:
      blk.append(fi.RET(i))
    ops.extend(blk)
    order.append(fi.blocks.Block(blk))
  for a, b in zip(ops, ops[1:]):
    a.next = b
    b.prev = a
  return fi.Code(order)


def spec_str(spec, init=()):
  ids = block_ids(spec)
  out = []
  for (stores, term), bid in zip(spec, ids):
    s = "".join("n%d=%d;" % xv for xv in stores)
    if term[0] == "fall":
      t = "fall"
    elif term[0] == "jump":
      t = "jump B%d" % ids[term[1]]
    elif term[0] == "cond":
      t = "if not a%d jump B%d" % (term[1], ids[term[2]])
    else:
      t = "ret"
    out.append("B%d[%s%s]" % (bid, s, t))
  pre = ("init{%s} " % ",".join("n%d:%d" % xv for xv in init)) if init else ""
  return pre + " ".join(out)


def spec_to_coq(spec, init):
  ids = block_ids(spec)
  bl = []
  for k, ((stores, term), bid) in enumerate(zip(spec, ids)):
    nxt = ids[k + 1] if k + 1 < len(ids) else None
    if term[0] == "fall":
      t = "(TFall %d)" % nxt
    elif term[0] == "jump":
      t = "(TJump %d)" % ids[term[1]]
    elif term[0] == "cond":
      t = "(TCond %d %d %d)" % (term[1], ids[term[2]], nxt)
    else:
      t = "TRet"
    bl.append("mkBlk %d [%s] %s" % (bid, "; ".join("(%d, %d)" % xv for xv in stores), t))
  return "render_run [%s] [%s]" % ("; ".join(bl), "; ".join("(%d, %d)" % xv for xv in init))


def run_real(spec, init):
  """Steps the real frame through the whole code.  Returns
  (entries, states, final_locals, snaps): entries[p] = rendering of the state with which block p was entered
  (None if the frame died with KeyError before/at p), states = {block id: rendering} of _states at the end and the
  _FINAL rendering (None if the run died), final_locals rendering or None, snaps[p] = per-valuation
  (value sets per name, reached) of the entry state (for the oracle)."""
  fi = frame_impl()
  m = c18.impl()
  code = build_code(spec)
  frame = fi.Frame(code, {c18.name_str(x): m.V.Variable.from_value(v) for x, v in init})
  n = len(spec)
  entries = [None] * n
  snaps = [None] * n
  names = sorted({x for stores, _ in spec for x, _ in stores} | {x for x, _ in init})
  died = False
  while True:
    step = frame._current_step  # pylint: disable=protected-access
    if step.block == -1:
      break
    if step.opcode == 0:
      blk = code.order[step.block]
      st = frame._states.get(blk.id)  # pylint: disable=protected-access
      if st is not None:
        entries[step.block] = c18.render_state(st)
        snaps[step.block] = [({x: c18.state_vals(st, rho, x) for x in names},
                              c18.ev(st._condition, rho))  # pylint: disable=protected-access
                             for rho in c18.VALUATIONS]
    try:
      frame.step()
    except KeyError:
      died = True
      break
  if died:
    return entries, None, None, snaps
  states = {k: c18.render_state(v) for k, v in frame._states.items()}  # pylint: disable=protected-access
  fl = tuple((c18.name_id(k), c18.render_var(v)) for k, v in frame._final_locals.items())  # pylint: disable=protected-access
  fin = frame._states[-1]  # pylint: disable=protected-access
  if dict(fin.get_locals()) != dict(frame._final_locals):  # pylint: disable=protected-access
    raise c18.Untranslatable("_final_locals is not the final state's get_locals()")
  FINAL_SNAPS[(spec, init)] = [({x: c18.state_vals(fin, rho, x) for x in names},
                                c18.ev(fin._condition, rho))  # pylint: disable=protected-access
                               for rho in c18.VALUATIONS]
  return entries, states, fl, snaps


FINAL_SNAPS = {}     # (spec, init) -> per-valuation (value sets per name, reached) of the frame's final state


def forward_walk(spec, init, rho):
  """The enabled control path from the entry under valuation rho, following forward edges only.
  Returns (visited: {position: environment on entry}, exits: [environment at a NO_NEXT block's exit])."""
  n = len(spec)
  visited = {}
  exits = []
  env = dict(init)
  pos = 0
  while pos is not None:
    visited[pos] = dict(env)
    stores, term = spec[pos]
    for x, v in stores:
      env[x] = v
    if term[0] == "fall":
      nxt = pos + 1
    elif term[0] == "jump":
      exits.append(dict(env))      # JUMP has NO_NEXT: step() merges its state into _FINAL as well
      nxt = term[1]
    elif term[0] == "cond":
      nxt = pos + 1 if rho[term[1]] else term[2]
    else:
      exits.append(dict(env))
      nxt = None
    pos = nxt if nxt is not None and pos < nxt < n else None
  return visited, exits


def final_oracle(spec, init):
  """The frame's final state must give each local exactly the values it has at the exits of the forward walk.
  Returns None or (valuation, 'final', local/'reached', got, want).  Only for frames that ran to the end."""
  fs = FINAL_SNAPS.get((spec, init))
  if fs is None:
    return None
  for i, rho in enumerate(c18.VALUATIONS):
    _, exits = forward_walk(spec, init, rho)
    vals, reached = fs[i]
    if reached != bool(exits):
      return (rho, "final", "reached", reached, bool(exits))
    for x, got in vals.items():
      want = frozenset(e[x] for e in exits if x in e)
      if got != want:
        return (rho, "final", "n%d" % x, sorted(got), sorted(want))
  return None


def path_oracle(spec, init, snaps):
  """Path enumeration: under each valuation follow the enabled control path from the entry (forward edges only,
  see forward_walk; on a forward graph that is the whole path) with a concrete environment; every entered block's
  real entry state must give each local exactly the value it has on that
  path (nothing when the path does not reach the block) and must be reached exactly when the path gets there.
  Returns None or (valuation, block position, local/'reached', got, want)."""
  n = len(spec)
  # the real frame dies with KeyError at the first block nobody merged a state into (an unreachable block);
  # blocks after it are never processed and have nothing to check
  dead = next((p for p in range(n) if snaps[p] is None), n)
  for i, rho in enumerate(c18.VALUATIONS):
    visited, _ = forward_walk(spec, init, rho)
    for p in range(min(n, dead + 1)):
      if snaps[p] is None:
        if p in visited:
          return (rho, p, "reached", "no state recorded", "reached")
        continue
      vals, reached = snaps[p][i]
      if reached != (p in visited):
        return (rho, p, "reached", reached, p in visited)
      for x, got in vals.items():
        want = frozenset([visited[p][x]]) if p in visited and x in visited[p] else frozenset()
        if got != want:
          return (rho, p, "n%d" % x, sorted(got), sorted(want))
  return None


STORE_CHOICES = [(), ((0, 1),), ((0, 2),), ((1, 1),), ((0, 1), (1, 2)), ((0, 2), (0, 1)), ((1, 2),)]
INIT_CHOICES = [(), (), ((0, 1),), ((1, 2),)]
COND_ATOMS = (0, 1)


def shapes(n):
  """All forward terminator assignments for n blocks (last block returns)."""
  per_block = []
  for k in range(n):
    if k == n - 1:
      per_block.append([("ret",)])
      continue
    opts = [("fall",), ("ret",)]
    for t in range(k + 1, n):
      opts.append(("jump", t))
      for a in COND_ATOMS:
        opts.append(("cond", a, t))
    per_block.append(opts)
  return itertools.product(*per_block)


def all_reachable(sh):
  """Every block has a (syntactic) predecessor that is itself reachable - otherwise the real frame dies with
  KeyError at the first orphan block."""
  n = len(sh)
  reach = {0}
  for k, t in enumerate(sh):
    if k not in reach:
      return False
    if t[0] in ("fall", "cond") and k + 1 < n:
      reach.add(k + 1)
    if t[0] == "jump":
      reach.add(t[1])
    if t[0] == "cond":
      reach.add(t[2])
  return True


def has_back_edge(sh):
  return any(t[0] in ("jump", "cond") and t[-1] <= k for k, t in enumerate(sh))


def fwd_reachable(sh):
  """Every block is reached by forward edges from reachable blocks (otherwise the real frame dies with KeyError)."""
  n = len(sh)
  reach = {0}
  for k, t in enumerate(sh):
    if k not in reach:
      return False
    if t[0] in ("fall", "cond") and k + 1 < n:
      reach.add(k + 1)
    if t[0] in ("jump", "cond") and t[-1] > k:
      reach.add(t[-1])
  return True


def cyclic_options(k, n):
  opts = []
  if k < n - 1:
    opts += [("fall",), ("ret",)]
  else:
    opts += [("ret",)]
  for t in range(n):
    opts.append(("jump", t))
    if k < n - 1:                 # a conditional jump needs a next opcode
      for a in COND_ATOMS:
        opts.append(("cond", a, t))
  return opts


def cyclic_shapes(n):
  """All terminator assignments for n blocks with at least one back edge (target position <= own position)."""
  for sh in itertools.product(*[cyclic_options(k, n) for k in range(n)]):
    if has_back_edge(sh):
      yield sh


def random_cyclic_shape(r, n):
  while True:
    sh = tuple(r.choice(cyclic_options(k, n)) for k in range(n))
    if has_back_edge(sh):
      return sh


# classics with loops: while, while with a break-like second exit, do-while (self loop), nested loops,
# a block reachable through a back edge only (the real frame dies with KeyError)
LOOP_CLASSICS = [
    (((((0, 1),), ("fall",)), ((), ("cond", 0, 3)), (((0, 2),), ("jump", 1)), ((), ("ret",))), ()),
    (((((0, 1),), ("fall",)), ((), ("cond", 0, 4)), (((0, 2),), ("cond", 1, 4)), (((1, 1),), ("jump", 1)),
      ((), ("ret",))), ()),
    (((((0, 1),), ("fall",)), (((0, 2),), ("cond", 0, 1)), ((), ("ret",))), ((1, 2),)),
    (((((0, 1),), ("fall",)), ((), ("cond", 0, 5)), ((), ("cond", 1, 4)), (((0, 2),), ("jump", 2)),
      (((1, 1),), ("jump", 1)), ((), ("ret",))), ()),
    ((((), ("jump", 2)), ((), ("ret",)), ((), ("jump", 1))), ()),
]


def gen_loop_cases(r, thorough):
  """(spec, init) cases with back edges: every cyclic shape up to 3 blocks, samples of 4 and 5 blocks."""
  out = list(LOOP_CLASSICS)
  for n in (1, 2, 3):
    k = 3 if thorough else (1 if n == 3 else 2)
    for sh in cyclic_shapes(n):
      if not fwd_reachable(sh) and r.random() > (0.3 if thorough else 0.1):
        continue
      for _ in range(k):
        out.append((tuple((r.choice(STORE_CHOICES), t) for t in sh), r.choice(INIT_CHOICES)))
  for n, cnt in ((4, 2500 if thorough else 150), (5, 1200 if thorough else 50)):
    got = 0
    tries = 0
    while got < cnt and tries < 200 * cnt:
      tries += 1
      sh = random_cyclic_shape(r, n)
      if not fwd_reachable(sh) and r.random() > 0.05:
        continue
      got += 1
      out.append((tuple((r.choice(STORE_CHOICES), t) for t in sh), r.choice(INIT_CHOICES)))
  return out


def all_paths_witness():
  """frame_loop_all_paths_refuted on the real FrameBase: the while loop of Flow/LoopProofs.v (code_while).
  Under a0 = True the control path B0 B2 B3 B2 reaches the loop header with n0 = 2; the header's real entry state
  only allows n0 = 1.  Returns (spec string, values of n0 in the header's entry state under a0=True, True if
  the real frame indeed misses the value 2)."""
  spec, init = LOOP_CLASSICS[0]
  _, _, _, snaps = run_real(spec, init)
  rho_i = len(c18.VALUATIONS) - 1          # all atoms True
  got = snaps[1][rho_i][0][0]
  return spec_str(spec, init), sorted(got), 2 not in got and 1 in got


def gen_cases(r, thorough):
  """(spec, init) cases: every shape up to 4 (thorough 5) blocks x sampled stores, plus named classics."""
  out = []
  # classics: diamond, nested if, chain, if without else, correlated conditions
  A, B = ((0, 1),), ((0, 2),)
  out.append(((((), ("cond", 0, 2)), (A, ("jump", 3)), (B, ("fall",)), ((), ("ret",))), ()))
  out.append(((((), ("cond", 0, 4)), ((), ("cond", 1, 3)), (A, ("jump", 5)), (B, ("jump", 5)),
               (((0, 3),), ("fall",)), (((1, 1),), ("ret",))), ((0, 9),)))
  out.append((((A, ("fall",)), (((1, 1),), ("fall",)), (B, ("ret",))), ()))
  out.append((((A, ("cond", 0, 2)), (B, ("fall",)), ((), ("ret",))), ()))
  out.append(((((), ("cond", 0, 2)), (A, ("fall",)), ((), ("cond", 0, 4)), (((1, 1),), ("fall",)), ((), ("ret",))), ((0, 2),)))
  nmax = 5 if thorough else 4
  for n in range(1, nmax + 1):
    k = (3 if n == 5 else 8) if thorough else (2 if n == 4 else 4)
    for sh in shapes(n):
      if not all_reachable(sh) and r.random() > 0.12:
        continue          # frames that die at an orphan block: a sample is enough
      for _ in range(k):
        spec = tuple((r.choice(STORE_CHOICES), t) for t in sh)
        out.append((spec, r.choice(INIT_CHOICES)))
  return out


def parse_model(t):
  """Parsed Coq term of render_run -> (entries, states or None, final_locals or None)."""
  ents, fr, fl = t
  entries = [c18.model_opt(e, c18.model_state) for e in ents]

  def frame(x):
    sts, fin = x
    d = {k: c18.model_state(v) for k, v in sts}
    d[-1] = c18.model_opt(fin, c18.model_state)
    return d
  states = c18.model_opt(fr, frame)

  def locs(x):
    return tuple((n, (tuple((v, c18.model_cond(bc)) for v, bc in bs), c18.model_opt(nm, lambda y: y)))
                 for n, (bs, nm) in x)
  return entries, states, c18.model_opt(fl, locs)


def real_as_model(entries, states, fl):
  """Brings run_real's answer into parse_model's shape."""
  if states is not None:
    states = dict(states)
    states.setdefault(-1, None)
    if fl is None:
      pass
  return list(entries), states, fl
