"""C09 — CFG reachability equals true graph reachability at all times.

Proof: coq/Props/C09.v (reach_correct, reach_refl, rows_wf) over the model coq/Typegraph/Reach.v.
Tie: the extracted model and the real cfg.Program (built from /repo's current typegraph/*.cc) run the same
histories; every answer is compared; a BFS oracle decides the property itself on the implementation.
"""
import itertools
import json
import os
import subprocess

import common


def gen_history(r, n_nodes, n_conn, style):
  """A history as a list of tokens lists: ('N',) ('C',a,b) ('Q',) ('P',a,b)."""
  ops = []
  n = 0
  pending_nodes = n_nodes
  conns = n_conn
  def newnode():
    nonlocal n, pending_nodes
    ops.append(("N",)); n += 1; pending_nodes -= 1
  newnode()
  chain_next = 0
  while pending_nodes > 0 or conns > 0:
    if pending_nodes > 0 and (conns == 0 or r.random() < pending_nodes / (pending_nodes + conns) or n < 2):
      newnode()
      continue
    conns -= 1
    k = r.random()
    if style == "dag":
      a = r.randrange(n); b = r.randrange(n)
      if a > b and r.random() < 0.9: a, b = b, a
    elif style == "chain":
      if chain_next + 1 < n and k < 0.7:
        a, b = chain_next, chain_next + 1; chain_next += 1
      elif k < 0.8:
        a = b = r.randrange(n)                       # self edge
      elif k < 0.9 and ops and any(o[0] == "C" for o in ops):
        o = r.choice([o for o in ops if o[0] == "C"]); a, b = o[1], o[2]   # duplicate edge
      else:
        a = r.randrange(n); b = r.randrange(n)       # includes late back edges joining components
    else:  # dense
      a = r.randrange(n); b = r.randrange(n)
    ops.append(("C", a, b))
  return ops


def with_queries(r, ops, full_limit, n_pairs):
  """Insert queries after every step: full matrix while n <= full_limit, random pairs beyond."""
  out = []
  n = 0
  for o in ops:
    out.append(o)
    if o[0] == "N":
      n += 1
    if n <= full_limit:
      out.append(("Q",))
    else:
      for _ in range(n_pairs):
        a = r.randrange(n); b = r.randrange(n)
        if r.random() < 0.3 and o[0] == "C":   # bias towards the nodes just touched
          a = o[1] if r.random() < 0.5 else a
          b = o[2] if r.random() < 0.5 else b
        out.append(("P", a, b))
  return out


def to_line(h):
  return " ".join(" ".join(map(str, o)) for o in h)


def run_impl(h):
  from pytype.typegraph import cfg
  p = cfg.Program()
  nodes = []
  out = []
  for o in h:
    if o[0] == "N":
      nodes.append(p.NewCFGNode("n%d" % len(nodes)))
    elif o[0] == "C":
      nodes[o[1]].ConnectTo(nodes[o[2]])
    elif o[0] == "Q":
      out.append("".join("1" if p.is_reachable(src=a, dst=b) else "0" for a in nodes for b in nodes) + "|")
    else:
      out.append("1" if p.is_reachable(src=nodes[o[1]], dst=nodes[o[2]]) else "0")
  return "".join(out)


def run_oracle(h):
  """True reachability by BFS over the edges inserted so far."""
  n = 0
  succ = []
  out = []
  def closure():
    reach = []
    for s in range(n):
      seen = {s}; todo = [s]
      while todo:
        x = todo.pop()
        for y in succ[x]:
          if y not in seen:
            seen.add(y); todo.append(y)
      reach.append(seen)
    return reach
  cache = None
  for o in h:
    if o[0] == "N":
      succ.append(set()); n += 1; cache = None
    elif o[0] == "C":
      succ[o[1]].add(o[2]); cache = None
    else:
      if cache is None:
        cache = closure()
      if o[0] == "Q":
        out.append("".join("1" if b in cache[a] else "0" for a in range(n) for b in range(n)) + "|")
      else:
        out.append("1" if o[2] in cache[o[1]] else "0")
  return "".join(out)


def exhaustive(max_nodes, max_conn):
  """All histories with <= max_nodes NewNode and <= max_conn Connect ops, in every interleaving."""
  res = []
  def rec(h, n, c):
    if h:
      res.append(list(h))
    if n < max_nodes:
      h.append(("N",)); rec(h, n + 1, c); h.pop()
    if c < max_conn and n > 0:
      for a in range(n):
        for b in range(n):
          h.append(("C", a, b)); rec(h, n, c + 1); h.pop()
  rec([], 0, 0)
  # only maximal histories are needed (every prefix is queried after every step)
  return [h for h in res if sum(1 for o in h if o[0] == "N") == max_nodes or
          sum(1 for o in h if o[0] == "C") == max_conn]


def first_diff(a, b):
  for i, (x, y) in enumerate(zip(a, b)):
    if x != y:
      return i
  return min(len(a), len(b)) if len(a) != len(b) else -1


def shrink(h, bad, budget_s=20.0):
  """Greedy removal of ops while `bad(history)` stays true (queries re-added by caller); time-bounded."""
  import time
  deadline = time.time() + budget_s
  h = [o for o in h if o[0] in "NC"]
  # first cut the history at the shortest failing prefix (bisect on length is unsound; scan coarse to fine)
  for step in (64, 16, 4, 1):
    while len(h) > step and time.time() < deadline:
      try:
        if bad(h[:-step]):
          h = h[:-step]
        else:
          break
      except Exception:
        break
  changed = True
  while changed and time.time() < deadline:
    changed = False
    for i in range(len(h) - 1, -1, -1):
      if time.time() > deadline:
        break
      if h[i][0] == "N":
        # removing a node is only possible if it is the last node and unused
        k = sum(1 for o in h if o[0] == "N") - 1
        idx = [j for j, o in enumerate(h) if o[0] == "N"][-1]
        if i != idx or any(o[0] == "C" and (o[1] == k or o[2] == k) for o in h):
          continue
      cand = h[:i] + h[i + 1:]
      try:
        if cand and bad(cand):
          h = cand; changed = True
      except Exception:
        pass
  return h


def run(res):
  res.rule = ("histories of NewCFGNode/ConnectTo (styles dag, chain-with-late-back-edges/self/duplicate edges, "
              "dense; 1..400 nodes) with is_reachable queried for all ordered pairs after every step while n<=40 "
              "and for random pairs beyond; thorough adds every history over <=3 nodes and <=4 connects in every "
              "interleaving. A case is non-trivial if it has >=1 effective edge; distinct by its op list.")
  res.assumptions = ["C++ compiler/STL semantics; signed 1l<<63 read as the unsigned bit (exercised on every bucket)",
                     "extraction via ExtrOcamlBasic (bool/list/option/prod mapped to OCaml's), nat/N kept inductive",
                     "generator + differ in harness/props/c09.py"]
  common.coq_obligations(res, "C09")
  common.bootstrap_pytype()
  exe = common.build_extracted("reach", "Extract/ExtractReach.v",
                               os.path.join(common.VERIF, "harness", "ocaml", "reach_driver.ml"), ["reach_model"])
  res.trusted_base += ["Coq extraction (ExtrOcamlBasic only) + OCaml 4.13.1 ocamlopt + harness/ocaml/reach_driver.ml",
                       "out-of-tree g++ build of /repo/pytype/typegraph/*.cc (harness/common.py build_cfg)"]
  r = common.rng(res.seed, "c09")
  thorough = res.tier == "thorough"
  hs = []
  # corpus first
  cdir = os.path.join(common.CORPUS, "C09")
  for f in sorted(os.listdir(cdir)) if os.path.isdir(cdir) else []:
    hs.append(("corpus:" + f, [tuple(o) for o in json.load(open(os.path.join(cdir, f)))["history"]]))
  n_small, n_big = (1500, 120) if thorough else (250, 24)
  for i in range(n_small):
    style = ["dag", "chain", "dense"][i % 3]
    n = r.randint(1, 40)
    c = r.randint(0, min(3 * n, 90))
    hs.append((f"small{i}", with_queries(r, gen_history(r, n, c, style), 40, 0)))
  for i in range(n_big):
    style = ["dag", "chain", "dense"][i % 3]
    n = r.choice([63, 64, 65, 127, 128, 129, 130, 191, 193, 257, 300, 400]) if i % 2 == 0 else r.randint(41, 400)
    c = r.randint(n // 2, 2 * n)
    hs.append((f"big{i}", with_queries(r, gen_history(r, n, c, style), 0 if i % 3 else 20, 24)))
  if thorough:
    for k, h in enumerate(exhaustive(3, 4)):
      hs.append((f"ex{k}", with_queries(r, h, 40, 0)))
    res.extra["exhaustive_scope"] = "all histories with <=3 nodes and <=4 connects (every interleaving)"
  # model
  inp = "\n".join(to_line(h) for _, h in hs) + "\n"
  pr = subprocess.run([exe], input=inp, capture_output=True, text=True)
  if pr.returncode != 0:
    res.obligation("model-run", False, pr.stderr[-2000:])
    return "proof"
  model_out = pr.stdout.split("\n")
  sizes = {"nodes<=8": 0, "nodes<=40": 0, "nodes<=64": 0, "nodes<=128": 0, "nodes>128": 0}
  n_mism = 0
  n_queries = 0
  for (name, h), mo in zip(hs, model_out):
    io = run_impl(h)
    oo = run_oracle(h)
    n_queries += len(io)
    nn = sum(1 for o in h if o[0] == "N")
    for k, lim in (("nodes<=8", 8), ("nodes<=40", 40), ("nodes<=64", 64), ("nodes<=128", 128), ("nodes>128", 10**9)):
      if nn <= lim:
        sizes[k] += 1
        break
    core = tuple(o for o in h if o[0] in "NC")
    eff = len({(o[1], o[2]) for o in core if o[0] == "C" and o[1] != o[2]})
    res.count(core if eff else None)
    if len(res.samples) < 3 and eff and nn <= 6:
      res.sample({"history": to_line(list(core)), "final_matrix_impl": io.rstrip("|").split("|")[-1]})
    if io != oo:
      # the implementation disagrees with true reachability: a concrete violation
      def bad(cand):
        q = [x for o in cand for x in ((o, ("Q",)) if o[0] == "C" else (o,))] + [("Q",)]
        return run_impl(q) != run_oracle(q)
      if len(res.violations) >= 3:
        n_mism += 1
        continue
      small = shrink(h, bad) if not res.violations else [o for o in h if o[0] in "NC"]
      q = small + [("Q",)]
      res.violation("reachability-differs-from-graph:" + to_line(small)[:80],
                    "is_reachable differs from BFS over inserted edges",
                    {"history": small, "impl": run_impl(q), "true": run_oracle(q), "case": name})
      n_mism += 1
    if io != mo:
      n_mism += 1
      d = first_diff(io, mo)
      if n_mism <= 3:
        res.obligation("correspondence:" + name, False,
                       f"model and cfg.Program differ at answer #{d}; history={to_line(list(core))[:300]}")
  res.obligation("correspondence:model-vs-cfg.Program", n_mism == 0,
                 f"{n_mism} of {len(hs)} histories disagree")
  res.extra["histories"] = len(hs)
  res.extra["answers_compared"] = n_queries
  res.extra["size_histogram"] = sizes
  res.extra["exhaustive"] = bool(thorough)
  if thorough:
    ok, out = common_coqchk("C09")
    res.obligation("coqchk", ok, out[-1500:])
  return "proof"


def common_coqchk(pid):
  r = subprocess.run(["timeout", "1500", "coqchk", "-silent", "-o", "-Q", common.COQ, "PV", f"PV.Props.{pid}"],
                     capture_output=True, text=True, cwd=common.COQ)
  return r.returncode == 0, r.stdout + r.stderr


def replay(res, path):
  common.bootstrap_pytype()
  d = json.load(open(path))
  h = [tuple(o) for o in d["replay"]["history"]]
  r = common.rng(0)
  q = with_queries(r, h, 10**9, 0)
  a, b = run_impl(q), run_oracle(q)
  print("impl :", a)
  print("true :", b)
  return 0 if a == b else 1
