"""C09 — CFG reachability equals true graph reachability at all times.

Proof: coq/Props/C09.v (reach_correct, reach_refl, rows_wf) over the model coq/Typegraph/Reach.v.
Tie: the extracted model and the real cfg.Program (built from /repo's current typegraph/*.cc) run the same
histories; every answer is compared; a BFS oracle decides the property itself on the implementation.
"""
import itertools
import json
import os
import subprocess

import common
import c09_prune


def gen_history(r, n_nodes, n_conn, style):
  """A history as a list of tokens lists: ('N',) ('C',a,b) ('Q',) ('P',a,b)."""
  ops = []
  n = 0
  pending_nodes = n_nodes
  conns = n_conn
  def newnode():
    nonlocal n, pending_nodes
    ops.append(("N",)); n += 1; pending_nodes -= 1
  newnode()
  chain_next = 0
  while pending_nodes > 0 or conns > 0:
    if pending_nodes > 0 and (conns == 0 or r.random() < pending_nodes / (pending_nodes + conns) or n < 2):
      newnode()
      continue
    conns -= 1
    k = r.random()
    if style == "dag":
      a = r.randrange(n); b = r.randrange(n)
      if a > b and r.random() < 0.9: a, b = b, a
    elif style == "chain":
      if chain_next + 1 < n and k < 0.7:
        a, b = chain_next, chain_next + 1; chain_next += 1
      elif k < 0.8:
        a = b = r.randrange(n)                       # self edge
      elif k < 0.9 and ops and any(o[0] == "C" for o in ops):
        o = r.choice([o for o in ops if o[0] == "C"]); a, b = o[1], o[2]   # duplicate edge
      else:
        a = r.randrange(n); b = r.randrange(n)       # includes late back edges joining components
    else:  # dense
      a = r.randrange(n); b = r.randrange(n)
    ops.append(("C", a, b))
  return ops


def with_queries(r, ops, full_limit, n_pairs):
  """Insert queries after every step: full matrix while n <= full_limit, random pairs beyond."""
  out = []
  n = 0
  for o in ops:
    out.append(o)
    if o[0] == "N":
      n += 1
    if n <= full_limit:
      out.append(("Q",))
    else:
      for _ in range(n_pairs):
        a = r.randrange(n); b = r.randrange(n)
        if r.random() < 0.3 and o[0] == "C":   # bias towards the nodes just touched
          a = o[1] if r.random() < 0.5 else a
          b = o[2] if r.random() < 0.5 else b
        out.append(("P", a, b))
  return out


def to_line(h):
  return " ".join(" ".join(map(str, o)) for o in h)


def run_impl(h):
  from pytype.typegraph import cfg
  p = cfg.Program()
  nodes = []
  out = []
  for o in h:
    if o[0] == "N":
      nodes.append(p.NewCFGNode("n%d" % len(nodes)))
    elif o[0] == "C":
      nodes[o[1]].ConnectTo(nodes[o[2]])
    elif o[0] == "Q":
      out.append("".join("1" if p.is_reachable(src=a, dst=b) else "0" for a in nodes for b in nodes) + "|")
    else:
      out.append("1" if p.is_reachable(src=nodes[o[1]], dst=nodes[o[2]]) else "0")
  return "".join(out)


def run_oracle(h):
  """True reachability by BFS over the edges inserted so far."""
  n = 0
  succ = []
  out = []
  def closure():
    reach = []
    for s in range(n):
      seen = {s}; todo = [s]
      while todo:
        x = todo.pop()
        for y in succ[x]:
          if y not in seen:
            seen.add(y); todo.append(y)
      reach.append(seen)
    return reach
  cache = None
  for o in h:
    if o[0] == "N":
      succ.append(set()); n += 1; cache = None
    elif o[0] == "C":
      succ[o[1]].add(o[2]); cache = None
    else:
      if cache is None:
        cache = closure()
      if o[0] == "Q":
        out.append("".join("1" if b in cache[a] else "0" for a in range(n) for b in range(n)) + "|")
      else:
        out.append("1" if o[2] in cache[o[1]] else "0")
  return "".join(out)


def exhaustive(max_nodes, max_conn):
  """All histories with <= max_nodes NewNode and <= max_conn Connect ops, in every interleaving."""
  res = []
  def rec(h, n, c):
    if h:
      res.append(list(h))
    if n < max_nodes:
      h.append(("N",)); rec(h, n + 1, c); h.pop()
    if c < max_conn and n > 0:
      for a in range(n):
        for b in range(n):
          h.append(("C", a, b)); rec(h, n, c + 1); h.pop()
  rec([], 0, 0)
  # only maximal histories are needed (every prefix is queried after every step)
  return [h for h in res if sum(1 for o in h if o[0] == "N") == max_nodes or
          sum(1 for o in h if o[0] == "C") == max_conn]


def first_diff(a, b):
  for i, (x, y) in enumerate(zip(a, b)):
    if x != y:
      return i
  return min(len(a), len(b)) if len(a) != len(b) else -1


def shrink(h, bad, budget_s=20.0):
  """Greedy removal of ops while `bad(history)` stays true (queries re-added by caller); time-bounded."""
  import time
  deadline = time.time() + budget_s
  h = [o for o in h if o[0] in "NC"]
  # first cut the history at the shortest failing prefix (bisect on length is unsound; scan coarse to fine)
  for step in (64, 16, 4, 1):
    while len(h) > step and time.time() < deadline:
      try:
        if bad(h[:-step]):
          h = h[:-step]
        else:
          break
      except Exception:
        break
  changed = True
  while changed and time.time() < deadline:
    changed = False
    for i in range(len(h) - 1, -1, -1):
      if time.time() > deadline:
        break
      if h[i][0] == "N":
        # removing a node is only possible if it is the last node and unused
        k = sum(1 for o in h if o[0] == "N") - 1
        idx = [j for j, o in enumerate(h) if o[0] == "N"][-1]
        if i != idx or any(o[0] == "C" and (o[1] == k or o[2] == k) for o in h):
          continue
      cand = h[:i] + h[i + 1:]
      try:
        if cand and bad(cand):
          h = cand; changed = True
      except Exception:
        pass
  return h


def run(res):
  res.rule = ("histories of NewCFGNode/ConnectTo (styles dag, chain-with-late-back-edges/self/duplicate edges, "
              "dense; 1..400 nodes) with is_reachable queried for all ordered pairs after every step while n<=40 "
              "and for random pairs beyond; thorough adds every history over <=3 nodes and <=4 connects in every "
              "interleaving. A case is non-trivial if it has >=1 effective edge; distinct by its op list.")
  res.assumptions = ["C++ compiler/STL semantics; signed 1l<<63 read as the unsigned bit (exercised on every bucket)",
                     "extraction via ExtrOcamlBasic (bool/list/option/prod mapped to OCaml's), nat/N kept inductive",
                     "generator + differ in harness/props/c09.py"]
  common.coq_obligations(res, "C09")
  common.bootstrap_pytype()
  exe = common.build_extracted("reach", "Extract/ExtractReach.v",
                               os.path.join(common.VERIF, "harness", "ocaml", "reach_driver.ml"), ["reach_model"])
  res.trusted_base += ["Coq extraction (ExtrOcamlBasic only) + OCaml 4.13.1 ocamlopt + harness/ocaml/reach_driver.ml",
                       "out-of-tree g++ build of /repo/pytype/typegraph/*.cc (harness/common.py build_cfg)"]
  r = common.rng(res.seed, "c09")
  thorough = res.tier == "thorough"
  hs = []
  # corpus first
  cdir = os.path.join(common.CORPUS, "C09")
  for f in sorted(os.listdir(cdir)) if os.path.isdir(cdir) else []:
    cd = json.load(open(os.path.join(cdir, f)))
    if "history" in cd:                      # files with "py_history" belong to the Prune leg
      hs.append(("corpus:" + f, [tuple(o) for o in cd["history"]]))
  n_small, n_big = (1500, 120) if thorough else (250, 24)
  for i in range(n_small):
    style = ["dag", "chain", "dense"][i % 3]
    n = r.randint(1, 40)
    c = r.randint(0, min(3 * n, 90))
    hs.append((f"small{i}", with_queries(r, gen_history(r, n, c, style), 40, 0)))
  for i in range(n_big):
    style = ["dag", "chain", "dense"][i % 3]
    n = r.choice([63, 64, 65, 127, 128, 129, 130, 191, 193, 257, 300, 400]) if i % 2 == 0 else r.randint(41, 400)
    c = r.randint(n // 2, 2 * n)
    hs.append((f"big{i}", with_queries(r, gen_history(r, n, c, style), 0 if i % 3 else 20, 24)))
  if thorough:
    for k, h in enumerate(exhaustive(3, 4)):
      hs.append((f"ex{k}", with_queries(r, h, 40, 0)))
    res.extra["exhaustive_scope"] = "all histories with <=3 nodes and <=4 connects (every interleaving)"
  # model
  inp = "\n".join(to_line(h) for _, h in hs) + "\n"
  pr = subprocess.run([exe], input=inp, capture_output=True, text=True)
  if pr.returncode != 0:
    res.obligation("model-run", False, pr.stderr[-2000:])
    return "proof"
  model_out = pr.stdout.split("\n")
  sizes = {"nodes<=8": 0, "nodes<=40": 0, "nodes<=64": 0, "nodes<=128": 0, "nodes>128": 0}
  n_mism = 0
  n_queries = 0
  for (name, h), mo in zip(hs, model_out):
    io = run_impl(h)
    oo = run_oracle(h)
    n_queries += len(io)
    nn = sum(1 for o in h if o[0] == "N")
    for k, lim in (("nodes<=8", 8), ("nodes<=40", 40), ("nodes<=64", 64), ("nodes<=128", 128), ("nodes>128", 10**9)):
      if nn <= lim:
        sizes[k] += 1
        break
    core = tuple(o for o in h if o[0] in "NC")
    eff = len({(o[1], o[2]) for o in core if o[0] == "C" and o[1] != o[2]})
    res.count(core if eff else None)
    if len(res.samples) < 3 and eff and nn <= 6:
      res.sample({"history": to_line(list(core)), "final_matrix_impl": io.rstrip("|").split("|")[-1]})
    if io != oo:
      # the implementation disagrees with true reachability: a concrete violation
      def bad(cand):
        q = [x for o in cand for x in ((o, ("Q",)) if o[0] == "C" else (o,))] + [("Q",)]
        return run_impl(q) != run_oracle(q)
      if len(res.violations) >= 3:
        n_mism += 1
        continue
      small = shrink(h, bad) if not res.violations else [o for o in h if o[0] in "NC"]
      q = small + [("Q",)]
      res.violation("reachability-differs-from-graph:" + to_line(small)[:80],
                    "is_reachable differs from BFS over inserted edges",
                    {"history": small, "impl": run_impl(q), "true": run_oracle(q), "case": name})
      n_mism += 1
    if io != mo:
      n_mism += 1
      d = first_diff(io, mo)
      if n_mism <= 3:
        res.obligation("correspondence:" + name, False,
                       f"model and cfg.Program differ at answer #{d}; history={to_line(list(core))[:300]}")
  res.obligation("correspondence:model-vs-cfg.Program", n_mism == 0,
                 f"{n_mism} of {len(hs)} histories disagree")
  res.extra["histories"] = len(hs)
  res.extra["answers_compared"] = n_queries
  res.extra["size_histogram"] = sizes
  res.extra["exhaustive"] = bool(thorough)
  run_prune_leg(res, thorough)
  if thorough:
    ok, out = common_coqchk("C09")
    res.obligation("coqchk", ok, out[-1500:])
  return "proof"


def prune_histories(r, thorough):
  P = c09_prune
  hs = []
  cdir = os.path.join(common.CORPUS, "C09")
  for f in sorted(os.listdir(cdir)) if os.path.isdir(cdir) else []:
    d = json.load(open(os.path.join(cdir, f)))
    if "py_history" in d:
      hs.append(("corpus:" + f, [tuple(o) for o in d["py_history"]]))
  n_rand, n_struct, n_single, n_max = (900, 700, 40, 6) if thorough else (130, 110, 8, 2)
  for i in range(300 if thorough else 40):
    hs.append((f"entry{i}", P.gen_entry(r, r.randint(2, 10) if i % 4 else r.choice([64, 65, 70, 130]))))
  for i in range(n_rand):
    small = i % 3 != 0
    hs.append((f"rand{i}", P.gen_random(r, r.randint(5, 45) if small else r.randint(40, 90),
                                        r.randint(2, 9) if small else r.randint(8, 30),
                                        r.randint(1, 4), r.choice([3, 4, 8]))))
  for i in range(n_struct):
    hs.append((f"struct{i}", P.gen_structured(r, r.randint(1, 7))))
  for i in range(n_single):
    n = r.choice([63, 65, 66, 100, 129, 130, 140]) if i % 2 == 0 else r.randint(20, 150)
    hs.append((f"single{i}", P.gen_single(r, n, r.randint(1, 6))))
  for i in range(n_max):
    hs.append((f"maxvar{i}", P.gen_maxvar(r, r.randint(0, 8))))
  if thorough:
    for k, h in enumerate(P.exhaustive_small()):
      hs.append((f"pex{k}", h))
  return hs


def prune_bad(core, queries):
  """Does the implementation violate the oracle on core + queries?"""
  _, _, bad, _ = c09_prune.run_impl(list(core) + list(queries))
  return bad is not None


def run_prune_leg(res, thorough):
  """Variable::Prune / ConnectNew / Filter(strict=False) against Typegraph/Prune.v and the reaching-definitions oracle."""
  P = c09_prune
  exe = common.build_extracted("prune", "Extract/ExtractPrune.v",
                               os.path.join(common.VERIF, "harness", "ocaml", "prune_driver.ml"), ["prune_model"])
  res.trusted_base += ["harness/ocaml/prune_driver.ml (token reader/printer for the extracted Prune model)"]
  hv = P.header_max_var_size()
  res.obligation("table:MAX_VAR_SIZE typegraph.h == Prune.v", hv == P.MODEL_MAX_VAR_SIZE,
                 f"typegraph.h declares {hv}, the model uses {P.MODEL_MAX_VAR_SIZE}")
  r = common.rng(res.seed, "c09-prune")
  hs = prune_histories(r, thorough)
  impl = []
  for name, h in hs:
    try:
      impl.append(P.run_impl(h))
    except Exception as e:       # the real API refused a generated call: a generator defect, fail closed
      res.obligation("prune-impl-run:" + name, False, repr(e)[:300])
      return
  # entrypoint writes (op E) are erased for the model run: Props/C09.v pe_run_core / entrypoint_irrelevant
  inp = "\n".join(P.to_line([o for o in rh if o[0] != "E"]) for _, rh, _, _ in impl) + "\n"
  pr = subprocess.run([exe], input=inp, capture_output=True, text=True)
  if pr.returncode != 0:
    res.obligation("prune-model-run", False, pr.stderr[-2000:])
    return
  model_out = pr.stdout.split("\n")
  n_mism = n_answers = n_illformed = n_fuel = n_viol = 0
  kinds = {}
  strict_subset = 0
  for (name, h), (io, rh, bad, kept), mo in zip(hs, impl, model_out):
    n_answers += io.count(";")
    n_illformed += mo.count("?")
    n_fuel += mo.count("!")
    for o in rh:
      kinds[o[0]] = kinds.get(o[0], 0) + 1
    core = tuple(P.strip_queries(rh))
    # non-trivial: some Bindings(node) answer is a non-empty strict subset of the variable's bindings
    nontriv = False
    im_fields = io.split(";")
    qi = 0
    nb = {}
    for o in rh:
      if o[0] in P.QUERIES:
        if o[0] == "B" and o[2] is not None and im_fields[qi] and "," not in im_fields[qi] and nb.get(o[1], 0) >= 2:
          nontriv = True
        qi += 1
      elif o[0] == "A":
        nb[o[1]] = nb.get(o[1], 0) + 1
    strict_subset += nontriv
    res.count(core if nontriv else None)
    if nontriv and len(res.samples) < 6 and len(core) <= 14:
      res.sample({"py_history": P.to_line(list(core)), "answers_impl": io[-120:]})
    if bad is not None:
      n_viol += 1
      if n_viol <= 3:
        idx, what = bad
        q = kept[idx]                     # replays use the ops as given (binding indexes, not ids)
        pre = P.strip_queries(kept[:idx])
        if q[0] == "T":                   # a PasteBinding postcondition: the op itself is the failing step
          pre, q = pre + [q], ("B", q[1], None)
        small = P.shrink(pre, lambda c: prune_bad(c, [q])) if n_viol == 1 else pre
        o2, _, b2, _ = P.run_impl(small + [q])
        kind = {"B": "Bindings", "L": "Bindings", "D": "Data", "F": "Filter-nonstrict", "R": "is_reachable",
                "M": "is_reachable"}[q[0]]
        if "PasteBinding" in what:
          kind = "PasteBinding-origins"
        kind = ("more-bindings-than-MAX_VAR_SIZE" if "MAX_VAR_SIZE" in what else
                kind if "PasteBinding" in what else kind + "-differs-from-" + ("graph-reachability" if q[0] in "RM" else "reaching-definitions"))
        res.violation("prune:%s:%s" % (kind, P.to_line(small + [q])[:80]),
                      (b2[1] if b2 else what),
                      {"py_history": [list(o) for o in small + [q]], "impl": o2, "case": name})
    if io != mo.strip():
      n_mism += 1
      if n_mism <= 3:
        d = first_diff(io, mo)
        res.obligation("correspondence:prune:" + name, False,
                       f"model and cfg.so differ near char {d}: impl={io[max(0, d - 30):d + 30]!r} "
                       f"model={mo[max(0, d - 30):d + 30]!r}; history={P.to_line(list(core))[:300]}")
  res.obligation("correspondence:prune-model-vs-cfg.so", n_mism == 0,
                 f"{n_mism} of {len(hs)} Python-level histories disagree")
  res.obligation("prune-model:no-fuel-exhaustion-and-all-ops-well-formed", n_fuel == 0 and n_illformed == 0,
                 f"fuel exhausted {n_fuel}x, ill-formed ops {n_illformed}x")
  res.extra["prune_histories"] = len(hs)
  res.extra["prune_answers_compared"] = n_answers
  res.extra["prune_op_histogram"] = kinds
  res.extra["prune_histories_with_strict_subset_answer"] = strict_subset


def common_coqchk(pid):
  r = subprocess.run(["timeout", "1500", "coqchk", "-silent", "-o", "-Q", common.COQ, "PV", f"PV.Props.{pid}"],
                     capture_output=True, text=True, cwd=common.COQ)
  return r.returncode == 0, r.stdout + r.stderr


def replay(res, path):
  common.bootstrap_pytype()
  d = json.load(open(path))
  if "py_history" in d["replay"]:
    h = [tuple(o) for o in d["replay"]["py_history"]]
    out, rh, bad, _ = c09_prune.run_impl(h)
    print("history:", c09_prune.to_line(rh))
    print("impl   :", out)
    print("oracle :", "ok" if bad is None else bad[1])
    return 0 if bad is None else 1
  h = [tuple(o) for o in d["replay"]["history"]]
  r = common.rng(0)
  q = with_queries(r, h, 10**9, 0)
  a, b = run_impl(q), run_oracle(q)
  print("impl :", a)
  print("true :", b)
  return 0 if a == b else 1
