"""C12 — serialised stubs decode to the same declarations, byte-stably; node equality and hashing agree.

Proof: coq/Props/C12.v over coq/Serial/{Model,Grammar}.v and the schema regenerated from the live classes
(coq/Generated/C12_Schema.v, written by harness/props/c12_schema.py on every run, fail-closed).
Tie: the extracted model (with that schema) and the real pickle_utils.Encode/DecodeAst run on the same
objects: generated ASTs of the dialect, parsed stubs (bundled builtins/typing, generated .pyi texts), ASTs
emitted for generated programs, values that violate the schema, mutated msgpack trees, and a pool of type
nodes for ==/hash.  The oracle (round trip, byte equality, == => equal hash) is evaluated on the real objects.
"""
import json
import os
import subprocess
import sys
import time
import traceback

import common
import c12_gen
import c12_prep
import c12_schema

FINGERPRINT_UNION_HASH = "union-hash-order-sensitive"


# ---------------------------------------------------------------------------------------------
class _Anything:
  """Stands in for the pytd module when only the number of negative builders is wanted."""

  def __getattr__(self, name):
    return lambda *a, **k: None


class Env:
  """Everything imported from the repository under study."""

  @staticmethod
  def pytd_stub():
    return _Anything()

  def __init__(self):
    common.bootstrap_pytype()
    import msgspec  # pylint: disable=import-outside-toplevel
    from pytype import config, io, load_pytd  # pylint: disable=import-outside-toplevel
    from pytype.imports import builtin_stubs, pickle_utils  # pylint: disable=import-outside-toplevel
    self.builtin_stubs = builtin_stubs
    from pytype.pyi import parser  # pylint: disable=import-outside-toplevel
    from pytype.pytd import pytd, pytd_utils, serialize_ast, visitors, pytd_visitors  # pylint: disable=import-outside-toplevel
    self.msgspec = msgspec
    self.config, self.io, self.load_pytd = config, io, load_pytd
    self.pickle_utils, self.parser = pickle_utils, parser
    self.pytd, self.pytd_utils, self.serialize_ast = pytd, pytd_utils, serialize_ast
    self.visitors, self.pytd_visitors = visitors, pytd_visitors
    self.options = config.Options.create(python_version=(3, 12))
    self.pyi_options = parser.PyiOptions.from_toplevel_options(self.options)
    self._decoders = {}

  def ns(self):
    return {"pytd": self.pytd, "serialize_ast": self.serialize_ast, "force": c12_gen.force}

  def decoder(self, spec):
    """spec: 'S:Class' or 'F:Class.field' -> msgspec Decoder for that annotation."""
    if spec not in self._decoders:
      kind, body = spec.split(":", 1)
      if kind == "S":
        cls = getattr(self.pytd, body, None) or getattr(self.serialize_ast, body)
        t = cls
      else:
        c, f = body.split(".")
        cls = getattr(self.pytd, c, None) or getattr(self.serialize_ast, c)
        t = {fi.name: fi.type for fi in self.msgspec.structs.fields(cls)}[f]
      self._decoders[spec] = self.msgspec.msgpack.Decoder(type=t)
    return self._decoders[spec]


class Model:
  """Batches commands for the extracted model and hands each answer to a callback."""

  def __init__(self, exe):
    self.exe = exe
    self.lines = []
    self.cbs = []

  def ask(self, tokens, cb, n_lines=1):
    self.lines.append(" ".join(tokens))
    self.cbs.append((cb, n_lines))

  preamble = ()

  def flush(self):
    if not self.lines:
      return
    pr = subprocess.run([self.exe], input="\n".join(list(self.preamble) + self.lines) + "\n", capture_output=True, text=True)
    if pr.returncode != 0:
      raise common.BuildError("model driver failed: " + pr.stderr[-2000:])
    out = pr.stdout.split("\n")
    i = 0
    for cb, n in self.cbs:
      chunk = out[i:i + n]
      i += n
      cb(chunk[0] if n == 1 else chunk)
    self.lines, self.cbs = [], []


# ---------------------------------------------------------------------------------------------
# the property oracle on the implementation

def prepared_expectation(env, ast):
  """The canonically ordered original, computed without serialize_ast.SerializeAst."""
  name = ast.name
  if name.endswith(".__init__"):
    ast = ast.Visit(env.visitors.RenameModuleVisitor(name, name.rsplit(".__init__", 1)[0]))
  ast = ast.Visit(env.serialize_ast.UndoModuleAliasesVisitor())
  return ast.Visit(env.pytd_visitors.CanonicalOrderingVisitor())


def all_classes(ast):
  todo = list(ast.classes)
  while todo:
    c = todo.pop()
    yield c
    todo.extend(c.classes)


def lookups_return_nodes(env, ast):
  """Every declared name, looked up in the (decoded) module / class, is the declared pytd node."""
  for scope, groups in [(ast, (ast.constants, ast.functions, ast.classes, ast.aliases))] + [
      (c, (c.methods, c.constants, c.classes)) for c in all_classes(ast)]:
    for items in groups:
      for item in items:
        got = scope.Get(item.name)
        if not isinstance(got, env.pytd.Node):
          return "%s.Lookup(%r) returns %s" % (scope.name, item.name, type(got).__name__)
        if (item.name in scope) is not True:
          return "%r in %s is not True" % (item.name, scope.name)
  return None


def roundtrip_real(env, ast, src_path=None, metadata=None):
  """Returns dict(sa, b1, sa2 | error, oracle flags)."""
  out = {}
  expected = prepared_expectation(env, ast)
  # the preparation model's input, and what the direct preparation oracle needs, taken before SerializeAst
  # clears the class pointers in place
  try:
    snap = c12_prep.snapshot(env, ast)
  except c12_gen.Untranslatable:
    snap = None
  out["prep_in"] = snap
  sa = env.serialize_ast.SerializeAst(ast, src_path=src_path, metadata=metadata)
  out["sa"] = sa
  out["prep_fail"] = c12_prep.oracle(env, snap, sa) if snap is not None else None
  if out["prep_fail"] and "class pointer" in out["prep_fail"]:
    # a surviving pointer makes the object graph cyclic: neither the tokeniser nor the encoder can be run on it
    out["error"] = out["prep_fail"]
    out["sa_tokens"] = ["N"]
    out["prep_in"] = None
    return out
  out["sa_tokens"] = c12_gen.value_tokens(sa)
  try:
    b1 = env.pickle_utils.Encode(sa)
  except Exception as e:  # pylint: disable=broad-except
    out["error"] = "encode: %s: %s" % (type(e).__name__, e)
    return out
  out["b1"] = b1
  # the lookup caches are private state, not declarations: nothing of them may be written
  out["cache_in_bytes"] = b"_name2item" in b1
  try:
    sa2 = env.pickle_utils.DecodeAst(b1)
  except Exception as e:  # pylint: disable=broad-except
    out["error"] = "decode: %s: %s" % (type(e).__name__, e)
    return out
  out["sa2"] = sa2
  out["sa2_tokens"] = c12_gen.value_tokens(sa2)
  out["ast_eq"] = bool(env.pytd_utils.ASTeq(sa2.ast, expected)) and sa2.ast.name == expected.name
  # the decoded declarations are in canonical order: every field CanonicalOrderingVisitor sorts is non-decreasing
  # under the real Node.__lt__ of the DECODED nodes (pointers cleared), and the visitor leaves the AST as it is
  out["decoded_order_fail"] = c12_prep.order_failure(sa2.ast)
  if not out["decoded_order_fail"]:
    again = sa2.ast.Visit(env.pytd_visitors.CanonicalOrderingVisitor())
    if c12_gen.value_tokens(again, drop_cache=True) != c12_gen.value_tokens(sa2.ast, drop_cache=True):
      out["decoded_order_fail"] = "decoded AST is not a fixed point of CanonicalOrderingVisitor"
  out["rest_eq"] = (sa2.dependencies == sa.dependencies and sa2.late_dependencies == sa.late_dependencies
                    and sa2.src_path == sa.src_path and sa2.metadata == sa.metadata
                    and sa2.class_type_nodes == sa.class_type_nodes)
  try:
    out["bytes_eq"] = env.pickle_utils.Encode(sa2) == b1
  except Exception as e:  # pylint: disable=broad-except
    out["bytes_eq"] = False
  # the decoded declarations are usable: lookups give pytd nodes (this fills the decoded AST's caches) ...
  try:
    out["lookup_fail"] = lookups_return_nodes(env, sa2.ast)
  except Exception as e:  # pylint: disable=broad-except
    out["lookup_fail"] = "lookup on the decoded AST raises %s" % type(e).__name__
  # ... and serialising the decoded, used AST again (the API for ASTs) gives the same bytes
  try:
    out["reserialize_eq"] = env.pickle_utils.Serialize(sa2.ast, src_path=src_path, metadata=metadata) == b1
  except Exception as e:  # pylint: disable=broad-except
    out["reserialize_eq"] = False
  return out


def oracle_failure(rt):
  if "error" in rt:
    return rt.get("prep_fail") or rt["error"]
  if rt.get("prep_fail"):
    return rt["prep_fail"]
  if rt["cache_in_bytes"]:
    return "lookup cache (_name2item) written into the serialised bytes"
  if rt.get("decoded_order_fail"):
    return "decoded order: " + rt["decoded_order_fail"]
  if not rt["ast_eq"]:
    return "decoded AST != canonically ordered original (ASTeq)"
  if not rt["rest_eq"]:
    return "decoded dependencies/metadata/class_type_nodes differ"
  if not rt["bytes_eq"]:
    return "second encode differs from the first"
  if rt["lookup_fail"]:
    return "decoded AST unusable: " + rt["lookup_fail"]
  if not rt["reserialize_eq"]:
    return "Serialize(decoded AST) after lookups differs from the first bytes"
  return None


def node_roundtrip_real(env, spec, obj):
  """Encode obj, decode with the decoder of `spec`; returns (ok, detail, decoded-or-None)."""
  try:
    b = env.pickle_utils.Encoder.encode(obj)
  except Exception as e:  # pylint: disable=broad-except
    return False, "encode: %s" % type(e).__name__, None
  try:
    o2 = env.decoder(spec).decode(b)
  except Exception as e:  # pylint: disable=broad-except
    return False, "decode: %s" % type(e).__name__, None
  try:
    same = c12_gen.value_tokens(o2) == c12_gen.value_tokens(obj)
  except c12_gen.Untranslatable:
    same = False
  return same, "ok" if same else "decoded value differs structurally", o2


# ---------------------------------------------------------------------------------------------
# sources of ASTs

PYI_TEMPLATES = [
    """
from typing import Any, Callable, Generic, List, Literal, Optional, Tuple, TypeVar, Union
T = TypeVar('T')
K = TypeVar('K', int, str)
B = TypeVar('B', bound=int)
x: int
y: Optional[str]
z: Union[int, str, None]
__all__ = ['x', 'y']
lit: Literal[1, 'a', True]
def f(a: int, /, b: str = ..., *args: int, c: T, **kw: Any) -> T: ...
def g(x: List[%(ty)s]) -> Tuple[int, ...]: ...
def h(cb: Callable[[int, str], %(ty)s]) -> Callable[..., Any]: ...
class A(Generic[T]):
    attr: %(ty)s
    __slots__ = ['attr', 'b']
    def m(self, x: T) -> 'A[T]': ...
    @staticmethod
    def s() -> None: ...
    @classmethod
    def c(cls) -> 'A[int]': ...
    @property
    def p(self) -> int: ...
    class Inner:
        v: Tuple[int, str]
class E(A[int]): ...
""",
    """
import typing
from typing import ParamSpec, Concatenate, Callable, TypeVar, overload, Annotated, Protocol
P = ParamSpec('P')
R = TypeVar('R')
def deco(f: Callable[P, R]) -> Callable[Concatenate[int, P], R]: ...
def w(*args: P.args, **kwargs: P.kwargs) -> None: ...
@overload
def o(x: int) -> int: ...
@overload
def o(x: str) -> %(ty)s: ...
Ann = Annotated[int, 'meta']
class Proto(Protocol):
    def meth(self) -> %(ty)s: ...
class M(metaclass=type): ...
async def co() -> int: ...
def raises() -> None:
    raise ValueError()
alias = o
""",
    """
from typing import NamedTuple, TypedDict, Final, ClassVar, Dict, Set, FrozenSet, Type, NoReturn
class NT(NamedTuple):
    a: int
    b: %(ty)s
class TD(TypedDict):
    k: str
    v: %(ty)s
c: Final[int] = ...
class K:
    cv: ClassVar[Dict[str, Set[int]]]
    def __init__(self, t: Type['K']) -> None: ...
    def never(self) -> NoReturn: ...
def fs(x: FrozenSet[%(ty)s]) -> None: ...
""",
]
PYI_TYPES = ["int", "str", "typing.Optional[int]", "typing.Union[int, str]",
             "typing.List[typing.Union[str, int]]", "typing.Tuple[int, str]", "typing.Callable[[int], str]",
             "typing.Dict[str, typing.Any]", "typing.Literal['x', 3]", "typing.Type[int]"]

# stubs the parser accepts that lie outside the dialect G (ints beyond msgpack's 64 bits)
EDGE_PYI = [
    ("literal-2^64", "from typing import Literal\nx: Literal[18446744073709551616]\n"),
    ("final-below-min", "from typing import Final\ny: Final = -9223372036854775809\n"),
]

PROGRAMS = [
    """
class A:
  def __init__(self, x):
    self.x = x
  def get(self):
    return self.x
def f(a, b=1):
  return a if b else str(b)
def g(xs):
  return [x for x in xs]
y = f(1)
z = {1: 'a'}
""",
    """
from typing import List, Optional, TypeVar, Generic, Callable, Union
T = TypeVar('T')
class Box(Generic[T]):
  def __init__(self, v: T):
    self.v = v
  def map(self, f: Callable[[T], T]) -> 'Box[T]':
    return Box(f(self.v))
  @staticmethod
  def make() -> 'Box[int]':
    return Box(1)
  @classmethod
  def cm(cls):
    return cls
  @property
  def prop(self) -> Optional[T]:
    return self.v
def pick(a: int, b: str, flag: bool) -> Union[int, str]:
  return a if flag else b
def lst(n: int) -> List[int]:
  return list(range(n))
b = Box(3).map(lambda q: q)
""",
    """
class Outer:
  class Inner:
    k = 3
    def m(self, *args, **kwargs):
      return args, kwargs
  def use(self):
    return Outer.Inner().m(1, a=2)
def gen():
  yield 1
async def co():
  return 1
def t():
  return (1, 'a', None)
def lits(x):
  if x:
    return 'yes'
  return 0
""",
    """
import typing
class Base:
  def f(self) -> int:
    return 1
class Child(Base):
  def f(self) -> int:
    return 2
  def __eq__(self, other):
    return isinstance(other, Child)
def kw(*, a: int = 1, b: typing.Optional[str] = None) -> typing.Dict[str, int]:
  return {'a': a}
def posonly(a, b, /, c):
  return a + b + c
CONST: typing.Final = 3
def union_many(x):
  if x == 1: return 1
  if x == 2: return 'a'
  if x == 3: return 2.0
  if x == 4: return b''
  return None
""",
]


# stubs loaded through load_pytd.Loader: local and nested class references, aliases, a method-less class, a
# function-less module; names deliberately both in and out of sorted order
HIST_MODULES = {
    "foo": """
from typing import List, Optional
class Settings:
    depth: int
    name: str
    class Limits:
        high: int
        low: int
class Empty: ...
class Node:
    kids: List['Node']
    next: Optional['Node']
class Zed:
    b: int
    a: Settings
Alias = Settings
current: Settings
inner: Settings.Limits
limit: int
""",
    "bar": """
import foo
from foo import Settings
def get() -> Settings: ...
def lim(x: foo.Empty) -> foo.Node: ...
class Sub(Settings):
    extra: foo.Empty
""",
    "baz": """
import foo as f
x: f.Settings
y: int
class OnlyAttrs:
    a: int
    b: f.Node
""",
}

HIST_PROGRAMS = [
    """
class Settings:
    depth: int = 0
    name: str = ""
current = Settings()
limit = 3
""",
    """
class Zeta:
    b = 1
    a = 'x'
    class Inner:
        k = 2
class Alpha:
    z: Zeta = Zeta()
holder = Alpha()
n = 0
""",
]


def apply_history(env, r, ast, module_map=None):
  """What happens to an AST before it is serialised: lookups, printing, verification, pointer filling - in a
  random order and number.  Returns the AST (LookupExternalTypes may rebuild it)."""
  ops = []
  def lookups(scope, names):
    for n in names:
      k = r.randrange(3)
      if k == 0:
        scope.Lookup(n)
      elif k == 1:
        scope.Get(n)
      else:
        _ = n in scope
    scope.Get("no_such_name")
  def op_module_lookups(a):
    names = [x.name for g in (a.constants, a.functions, a.classes, a.aliases) for x in g]
    lookups(a, r.sample(names, r.randint(1, len(names))) if names else [])
    return a
  def op_class_lookups(a):
    for c in all_classes(a):
      names = [x.name for g in (c.methods, c.constants, c.classes) for x in g]
      if names and r.random() < 0.8:
        lookups(c, r.sample(names, r.randint(1, len(names))))
      elif r.random() < 0.5:
        c.Get("nothing")
    return a
  def op_print(a):
    env.pytd_utils.Print(a)
    return a
  def op_verify(a):
    a.Visit(env.visitors.VerifyVisitor())
    return a
  def op_fill(a):
    a.Visit(env.visitors.FillInLocalPointers({"": a, a.name: a}))
    return a
  def op_external(a):
    if module_map is None:
      return a
    try:
      return a.Visit(env.visitors.LookupExternalTypes(module_map, self_name=a.name))
    except Exception:  # pylint: disable=broad-except
      return a
  pool = [op_module_lookups, op_class_lookups, op_print, op_verify, op_fill, op_external]
  for _ in range(r.randint(2, 6)):
    ops.append(r.choice(pool))
  if not any(o in (op_module_lookups, op_class_lookups) for o in ops):
    ops.insert(r.randrange(len(ops) + 1), r.choice([op_module_lookups, op_class_lookups]))
  for o in ops:
    try:
      ast = o(ast)
    except Exception:  # pylint: disable=broad-except
      pass
  return ast


def hist_dir():
  d = os.path.join(common.BUILD, "c12", "hist")
  os.makedirs(d, exist_ok=True)
  for name, text in HIST_MODULES.items():
    common.write_if_changed(os.path.join(d, name + ".pyi"), text)
  return d


def hist_loader(env):
  opts = env.config.Options.create(python_version=(3, 12), pythonpath=hist_dir())
  loader = env.load_pytd.create_loader(opts)
  for m in ("bar", "baz", "foo"):
    loader.import_name(m)
  return loader


def history_cases(env, r, n_programs):
  """Yields (name, ast, replay, plain_bytes_or_None): ASTs with a real pre-serialisation history, and - where
  the same declarations can be had without that history - the bytes they must serialise to."""
  out = []
  # (1) modules imported by a Loader (resolved against each other and the builtins), then used
  plain = hist_loader(env)
  plain_bytes = {}
  for name in HIST_MODULES:
    m = plain._modules[name]  # pylint: disable=protected-access
    plain_bytes[name] = env.pickle_utils.Serialize(m.ast, src_path="hist/%s.py" % name, metadata=["m:hist:" + name])
  used = hist_loader(env)
  mmap = used._modules.get_module_map()  # pylint: disable=protected-access
  for name in HIST_MODULES:
    ast = apply_history(env, r, used._modules[name].ast, mmap)  # pylint: disable=protected-access
    out.append(("hist:" + name, ast, {"kind": "history", "case": "hist:" + name}, plain_bytes[name]))
  # (2) the inferred AST of a program, prepared for export as io.write_pickle does, then used
  loader = env.load_pytd.create_loader(env.options)
  for i, src in enumerate(HIST_PROGRAMS[:n_programs]):
    mod = "hprog%d" % i
    ret, _ = env.io.generate_pyi(src, env.options, loader)
    a0 = env.serialize_ast.PrepareForExport(mod, ret.ast, loader)
    b0 = env.pickle_utils.Serialize(a0, src_path="hist/%s.py" % mod, metadata=["m:hist:" + mod])
    a1 = env.serialize_ast.PrepareForExport(mod, ret.ast, loader)
    a1 = apply_history(env, r, a1)
    out.append(("hist:" + mod, a1, {"kind": "history", "case": "hist:" + mod}, b0))
  return out


def bundle_cases(env, r, res):
  """Loader.save_to_pickle / LoadBuiltins: the bundle of a loader whose modules were used."""
  loader = hist_loader(env)
  mmap = loader._modules.get_module_map()  # pylint: disable=protected-access
  for name in list(HIST_MODULES) + ["builtins"]:
    loader._modules[name].ast = apply_history(env, r, loader._modules[name].ast, None if name == "builtins" else mmap)  # pylint: disable=protected-access
  originals = {name: prepared_expectation(env, m.ast) for name, m in loader._modules.items()}  # pylint: disable=protected-access
  path = os.path.join(common.BUILD, "c12", "hist", "bundle_%d.pickle" % os.getpid())
  loader.save_to_pickle(path)
  items = dict(env.pickle_utils.LoadBuiltins(path, compress=True))
  os.unlink(path)
  fails = []
  for name, raw in sorted(items.items()):
    data = bytes(raw)
    fail = None
    if b"_name2item" in data:
      fail = "lookup cache (_name2item) written into the serialised bytes"
    else:
      try:
        dec = env.pickle_utils.DecodeAst(data)
        if env.pickle_utils.Encode(dec) != data:
          fail = "second encode differs from the first"
        elif not env.pytd_utils.ASTeq(dec.ast, originals[name]):
          fail = "decoded AST != canonically ordered original (ASTeq)"
        else:
          lf = lookups_return_nodes(env, dec.ast)
          if lf:
            fail = "decoded AST unusable: " + lf
      except Exception as e:  # pylint: disable=broad-except
        fail = "decode: %s: %s" % (type(e).__name__, e)
    if fail:
      fails.append((name, fail))
  return len(items), fails


# ---------------------------------------------------------------------------------------------
# ASTs in MIXED resolution state, as pyi/parse_pickle.py and io.write_pickle make them
# (serialize_ast.SourceToExportableAst: local classes and builtins get their .cls pointer, typing.* stays an
# unresolved ClassType).  The sort key of CanonicalOrderingVisitor prints ClassType(x) for a resolved and
# ClassType<unresolved>(x) for an unresolved reference, so the order of two same-base generics inside a union
# depends on WHEN the pointers are cleared - visible only if the module name sorts after "typing".
MIXED_FIXED = """
from typing import Dict, Hashable, List, Sized, Tuple, Union

class Job: ...
class Pool:
  queue: Union[List[Job], List[Hashable]]
  def submit(self, x: Union[Dict[str, Job], Dict[str, Sized]]) -> None: ...

def run(x: Union[Tuple[Job, int], Tuple[Hashable]]) -> None: ...
"""

MIXED_TEMPLATE = """
from typing import Any, Callable, Dict, FrozenSet, Hashable, Iterable, List, Optional, Sequence, Set, Sized, Tuple, Union

class Job: ...
class Zed(Job):
  nested: %(u0)s
class Pool:
  queue: %(u1)s
  def submit(self, x: %(u2)s) -> %(u3)s: ...

def run(x: %(u4)s, *args: %(u5)s) -> None: ...
v: %(u6)s
"""

MIXED_WRAPPERS = ["List[%s]", "Dict[str, %s]", "Tuple[%s, int]", "Tuple[%s]", "Set[%s]", "FrozenSet[%s]",
                  "Callable[[%s], int]", "Callable[..., %s]", "List[List[%s]]", "Dict[str, List[%s]]",
                  "Tuple[%s, ...]", "Iterable[%s]"]
MIXED_LOCAL = ["Job", "Zed", "Pool"]                                   # resolved: .cls set
MIXED_TYPING = ["Hashable", "Sized", "Sequence[str]", "Iterable[int]"]  # typing.*: stays unresolved
MIXED_BUILTIN = ["int", "str", "bytes"]                                 # resolved against the builtins
# package modules ("x.__init__") are renamed by SerializeAst (RenameModuleVisitor) while their local classes are
# RESOLVED ClassTypes sitting inside already-hashed unions / generics
MIXED_MODULES = ["shapes", "pkg.__init__", "utils", "zz.sub.__init__", "a.b", "zz.mod", "typing_ext", "t", "u", "typinh",
                 "typinf.x"]


def mixed_union(r, depth=0):
  """Union of same-base generics whose parameters are in different resolution states (also nested)."""
  w = r.choice(MIXED_WRAPPERS)
  members = [r.choice(MIXED_LOCAL), r.choice(MIXED_TYPING)]
  if r.random() < 0.5:
    members.append(r.choice(MIXED_BUILTIN + MIXED_LOCAL + MIXED_TYPING))
  if depth < 2 and r.random() < 0.35:
    members.append(mixed_union(r, depth + 1))
  members = list(dict.fromkeys(members))
  r.shuffle(members)
  u = "Union[%s]" % ", ".join(w % m for m in members)
  if r.random() < 0.25:
    u = r.choice(["List[%s]", "Optional[%s]", "Dict[str, %s]"]) % u
  return u


def build_exportable(env, text, module):
  loader = getattr(env, "_export_loader", None)
  if loader is None:
    loader = env._export_loader = env.load_pytd.create_loader(env.options)  # pylint: disable=protected-access
  return env.serialize_ast.SourceToExportableAst(module, text, loader)


def mixed_cases(env, r, n_random):
  out = []
  for mod in ("shapes", "utils"):
    out.append(("mixed:fixed:" + mod, MIXED_FIXED, mod))
  for i in range(n_random):
    text = MIXED_TEMPLATE % {"u%d" % k: mixed_union(r) for k in range(7)}
    out.append(("mixed:%d" % i, text, MIXED_MODULES[i % len(MIXED_MODULES)] if i < 2 * len(MIXED_MODULES) else r.choice(MIXED_MODULES)))
  return out


def hash_law_failure(env, a_ast, b_ast):
  """Equal type nodes of two ASTs must hash equally (set/dict de-duplication across a decoded and a prepared AST)."""
  pa, pb = collect_types(env, a_ast), collect_types(env, b_ast)
  seen = {}
  for x in pa:
    seen.setdefault(x, x)                   # hash-then-eq lookup, as a set does
  for y in pb:
    for x in pa:
      if x == y and hash(x) != hash(y):
        return "%s: equal nodes hash differently (%d vs %d)" % (type(x).__name__, hash(x), hash(y))
    if any(x == y for x in pa) and y not in seen:
      return "%s: a node equal to a member is not found in the set of the other AST's nodes" % type(y).__name__
  return None


def rename_leg(env, res, items, stats):
  """The module-rename path: (a) a stub serialised under one module name and loaded under another
  (EnsureAstName(fix=True), what the pickled-pyi loader does) must give the declarations that serialising the same
  text under the new name gives; (b) equal type nodes of the renamed and the directly built AST hash equally."""
  n = 0
  for label, text, mod in items:
    new = "renamed." + mod.replace(".__init__", "") + "_r"
    try:
      sa_old = env.pickle_utils.DecodeAst(env.pickle_utils.Encode(
          env.serialize_ast.SerializeAst(build_exportable(env, text, mod))))
      renamed = env.serialize_ast.EnsureAstName(sa_old, new, fix=True).ast
      direct = env.pickle_utils.DecodeAst(env.pickle_utils.Encode(
          env.serialize_ast.SerializeAst(build_exportable(env, text, new)))).ast
    except Exception as e:  # pylint: disable=broad-except
      res.obligation("rename-leg-runs", False, "%s (%s): %s: %s" % (label, mod, type(e).__name__, e))
      return
    n += 1
    canon = lambda a: a.Visit(env.pytd_visitors.CanonicalOrderingVisitor())
    fail = None
    if renamed.name != new:
      fail = "renamed AST is called %r" % renamed.name
    elif not env.pytd_utils.ASTeq(canon(renamed), canon(direct)):
      fail = "declarations after EnsureAstName(fix=True) differ from those serialised under the new name (ASTeq)"
    else:
      fail = hash_law_failure(env, renamed, direct)
    if fail and len(res.violations) < 3:
      res.violation("rename:" + fail.split(":")[0][:50],
                    "%s serialised as %r and loaded as %r: %s" % (label, mod, new, fail),
                    {"kind": "rename", "text": text, "module": mod, "new_module": new})
  stats["rename_leg_asts"] = n


def parse_pyi(env, text, name):
  return env.parser.parse_string(text, name=name, filename=name + ".pyi", options=env.pyi_options)


def emitted_asts(env, n, res):
  """ASTs pytype emits for small programs, prepared for export exactly as io.write_pickle does."""
  out = []
  loader = env.load_pytd.create_loader(env.options)
  for i, src in enumerate(PROGRAMS[:n]):
    try:
      ret, _ = env.io.generate_pyi(src, env.options, loader)
      ast = env.serialize_ast.PrepareForExport("prog%d" % i, ret.ast, loader)
      out.append(("emitted:prog%d" % i, ast, {"kind": "program", "src": src, "module": "prog%d" % i}))
    except Exception as e:  # pylint: disable=broad-except
      if type(e).__name__ == "UsageError":
        res.extra.setdefault("not_explorable", []).append("prog%d: %s" % (i, e))
        continue
      raise
  return out, loader


# ---------------------------------------------------------------------------------------------
def eq_hash_pool(env, r, n_target):
  """Type nodes (and a few declarations) with deliberately many ==-equal, differently built pairs."""
  p = env.pytd
  g = c12_gen.Gen(p, r)
  pool = []
  nt = p.NamedType
  seeds = [
      p.UnionType((nt("int"), nt("str"))), p.UnionType((nt("str"), nt("int"))),
      p.IntersectionType((nt("int"), nt("str"))), p.IntersectionType((nt("str"), nt("int"))),
      p.UnionType((nt("int"),)), nt("int"), p.ClassType("int"), p.LateType("int"), p.ParamSpecArgs("int"),
      p.Literal(1), p.Literal(True), p.Literal(0), p.Literal(False), p.Literal("1"),
      p.TupleType(nt("tuple"), (nt("int"),)), p.GenericType(nt("tuple"), (nt("int"),)),
      p.ClassType("C"), p.ClassType("C", p.Class(name="C", keywords=(), bases=(), methods=(), constants=(),
                                                   classes=(), decorators=(), slots=None, template=())),
      p.TypeParameter("T"), p.ParamSpec("T"), p.TypeParameter("T", scope="m"),
      p.AnythingType(), p.NothingType(),
  ]
  pool += seeds
  while len(pool) < n_target:
    t = g.type(r.randint(0, 3))
    pool.append(t)
    # an ==-equal twin built differently: permute every union inside
    tw = permute_unions(env, r, t)
    if tw is not None:
      pool.append(tw)
    if r.random() < 0.3:
      base = pool[r.randrange(len(pool))]
      if isinstance(base, p.Type):
        other = g.type(1)
        pool.append(p.UnionType((base, other)))
        tb = permute_unions(env, r, base)
        pool.append(p.UnionType((other, tb if tb is not None else base)))
        pool.append(p.GenericType(nt("list"), (base,)))
        if tb is not None:
          pool.append(p.GenericType(nt("list"), (tb,)))
    if r.random() < 0.1:
      pool.append(g.constant(1))
      pool.append(g.param(1))
  return pool[:n_target]


def permute_unions(env, r, t):
  p = env.pytd
  changed = [False]

  class V(env.visitors.Visitor):

    def VisitUnionType(self, n):  # pylint: disable=invalid-name
      if len(n.type_list) > 1:
        tl = list(n.type_list)
        tl.reverse() if r.random() < 0.5 else r.shuffle(tl)
        if tuple(tl) != n.type_list:
          changed[0] = True
        return p.UnionType(tuple(tl))
      return n

    def VisitIntersectionType(self, n):  # pylint: disable=invalid-name
      if len(n.type_list) > 1:
        tl = list(reversed(n.type_list))
        changed[0] = True
        return p.IntersectionType(tuple(tl))
      return n
  try:
    out = t.Visit(V())
  except Exception:  # pylint: disable=broad-except
    return None
  return out if changed[0] else None


# ---------------------------------------------------------------------------------------------
def run(res):
  thorough = res.tier == "thorough"
  res.rule = (
      "ASTs: random TypeDeclUnits built from the node classes over every production of the dialect G "
      "(all 17 type forms incl. nested unions, literals of every kind, TypeVars/ParamSpecs, "
      "signatures/parameters/classes/aliases), parsed .pyi texts (3 templates x type fillers), the bundled "
      "builtins/typing stubs (raw parse and the loader's resolved ASTs), ASTs emitted for generated programs via "
      "PrepareForExport; stubs imported by a load_pytd.Loader (local/nested class references, aliases, a "
      "method-less class, a function-less module) and exported program ASTs AFTER a random history of "
      "Lookup/Get/in, Print, VerifyVisitor, FillInLocalPointers, LookupExternalTypes, and the loader's "
      "save_to_pickle/LoadBuiltins bundle; each goes SerializeAst -> Encode -> DecodeAst -> Encode, then lookups on "
      "the decoded AST must give pytd nodes, Serialize(decoded) must give the first bytes, no lookup cache may be "
      "in the bytes, and the bytes must equal those of the same declarations serialised unused. "
      "Node-level values that violate "
      "the schema (%d hand-written classes of violation) and random mutations of real msgpack trees are decoded "
      "by both sides. ==/hash: all ordered pairs of a pool of type nodes with union-permuted twins, and of a pool of "
      "RESOLVED nodes (class pointers set by LookupExternalTypes/FillInLocalPointers and by hand: one class under "
      "two names, two classes under one name, resolved next to unresolved, generics/unions/tuples/callables over "
      "them) with symmetry, transitivity, set/dict de-duplication and equal-before <=> equal-after pickling. "
      "A case is non-trivial if it contains at least one struct node; distinct by its token string."
      % len(c12_gen.negatives(Env.pytd_stub(), Env.pytd_stub())))
  res.assumptions = [
      "msgspec's C codec implements the modelled tagged-struct msgpack semantics (validated case by case by the "
      "correspondence, not verified); gzip framing and file I/O of pickle_utils.Save/_Load are not modelled",
      "SerializeAst's preparation (CanonicalOrderingVisitor, ClearClassPointers, CollectDependencies) and "
      "ProcessAst's pointer re-linking are Python visitors outside the model; the oracle checks their result",
      "CPython's tuple/str/int/frozenset hash functions are collision-free on the pool (hash data <-> hash value)",
      "sets of anything but str, non-empty dict[str, Any] and floats have no field in the schema; the model "
      "rejects them (the translator fails closed if such a field type appears)",
      "extraction via ExtrOcamlBasic + ExtrOcamlString; generators, token translation and differ in "
      "harness/props/c12*.py",
  ]
  t_start = time.time()
  timing = {}
  res.extra["timing_s"] = timing
  def lap(name, _t=[t_start]):
    now = time.time()
    timing[name] = round(now - _t[0], 1)
    _t[0] = now
  env = Env()
  lap("import-pytype")
  # ---- 1. regenerate the schema from the live classes (fail closed) ----
  gen_path = os.path.join(common.COQ, "Generated", "C12_Schema.v")
  try:
    sch = c12_schema.translate(env.pytd, env.serialize_ast, env.pickle_utils)
    common.write_if_changed(gen_path, sch.text)
    res.obligation("translator:schema-regenerated", True, "%d struct classes, %d enums" % (len(sch.classes), len(sch.enums)))
    res.extra["schema_sha"] = common.sha(sch.text.encode())
  except c12_schema.TranslateError as e:
    sch = None
    res.obligation("translator:schema-regenerated", False, "fail-closed: %s" % e)
  lap("translate-schema")
  # ---- 2. proofs ----
  common.coq_obligations(res, "C12")
  lap("coq (incl. waiting for the shared build lock)")
  exe = None
  if sch is not None:
    try:
      exe = common.build_extracted("serial", "Extract/ExtractSerial.v",
                                   os.path.join(common.VERIF, "harness", "ocaml", "serial_driver.ml"), ["serial_model"])
    except common.BuildError as e:
      res.obligation("model-build", False, str(e)[-1500:])
  res.trusted_base += ["Coq extraction (ExtrOcamlBasic, ExtrOcamlString) + OCaml 4.13.1 ocamlopt + "
                       "harness/ocaml/serial_driver.ml", "msgspec %s (C extension)" % env.msgspec.__version__]
  model = Model(exe) if exe else None
  # the preparation model (Serial/Prepare.v over Canon/Model.v) has its own driver
  pmodel = None
  if sch is not None:
    try:
      pexe = common.build_extracted("prepare", "Extract/ExtractPrepare.v",
                                    os.path.join(common.VERIF, "harness", "ocaml", "prepare_driver.ml"), ["prepare_model"])
      pmodel = Model(pexe)
    except common.BuildError as e:
      res.obligation("prepare-model-build", False, str(e)[-1500:])
  if pmodel:
    got_tables = []
    pmodel.ask(["T"], got_tables.extend, n_lines=4)
    pmodel.flush()
    # every later batch starts a fresh process: the enum members' str()/repr() are registered first each time
    pmodel.preamble = [" ".join(cmd) for cmd in c12_prep.enum_commands(env)]
    want_tables = c12_prep.real_tables(env)
    res.obligation("tables:visit_class_names(ClearClassPointers,CollectDependencies,ClearLookupCache,CanonicalOrdering)",
                   got_tables == want_tables,
                   "model tables equal the live visitors'" if got_tables == want_tables else
                   "model %r != live %r" % (got_tables, want_tables))
  env.pmodel = pmodel
  env.prep_budget = 400000 if thorough else 60000     # tokens per case the preparation model is asked about
  lap("extract+ocamlopt")
  r = common.rng(res.seed, "c12")
  stats = {"asts": 0, "ast_nodes": 0, "neg": 0, "neg_rejected_by_both": 0, "raw": 0, "raw_accepted": 0,
           "pool": 0, "pairs": 0, "eq_pairs": 0}
  mism = []          # correspondence mismatches (model vs implementation)
  hv = ["o"]          # which __hash__ the implementation follows; decided by the pool below

  # ---- 3. ==/hash on a pool of nodes: decides the variant, runs the law's oracle ----
  pool = eq_hash_pool(env, r, 800 if thorough else 260)
  corpus_pairs = load_corpus(env, res)
  for a, b in corpus_pairs:
    pool += [a, b]
  eq_hash(env, res, model, pool, stats, mism, hv)
  # resolved nodes (class pointers set): one class under two names, two classes under one name, ...
  rpool, rast = resolved_pool(env)
  eq_hash(env, res, model, rpool, stats, mism, [hv[0]], decide=False, resolved=True)
  resolved_oracles(env, res, rpool, rast, stats)
  if thorough:
    # exhaustive small scope: every ordering of every non-empty subset (<= 3 members) of four atoms, as union
    # and as intersection, bare, inside a generic, and inside an outer union
    eq_hash(env, res, model, exhaustive_pool(env), stats, mism, [hv[0]], decide=False)
    res.extra["exhaustive_scope"] = "==/hash: all orderings of all subsets (size<=3) of 4 atoms as Union/Intersection, bare, under list[...], and inside an outer union (all ordered pairs)"
  lap("eq/hash pool")

  # ---- 4. whole-AST round trips ----
  cases = []
  g = c12_gen.Gen(env.pytd, r)
  n_gen = 1000 if thorough else 60
  for i in range(n_gen):
    u = g.unit(r.randint(0, 3))
    cases.append(("gen%d" % i, u, {"kind": "expr", "expr": c12_gen.to_expr(u)}, False))
  n_pyi = len(PYI_TEMPLATES) * (len(PYI_TYPES) if thorough else 3)
  for i in range(n_pyi):
    text = PYI_TEMPLATES[i % len(PYI_TEMPLATES)] % {"ty": PYI_TYPES[(i // len(PYI_TEMPLATES)) % len(PYI_TYPES)]}
    name = r.choice(["m%d" % i, "pkg.m%d" % i, "pkg%d.__init__" % i])
    try:
      cases.append(("pyi%d" % i, parse_pyi(env, text, name), {"kind": "pyi", "text": text, "module": name}, True))
    except Exception as e:  # pylint: disable=broad-except
      res.obligation("generator:pyi-template-parses", False, "%s: %s" % (type(e).__name__, e))
  for label, text in EDGE_PYI:
    cases.append(("edge:" + label, parse_pyi(env, text, "edge"), {"kind": "pyi", "text": text, "module": "edge"}, None))
  stub_dir = os.path.join(common.REPO, "pytype", "stubs", "builtins")
  for mod in ("builtins", "typing"):
    text = open(os.path.join(stub_dir, mod + ".pytd")).read()
    cases.append(("stub-raw:" + mod, parse_pyi(env, text, mod), {"kind": "stub-raw", "module": mod}, True))
  rm = common.rng(res.seed, "c12-mixed")
  n_mixed = 0
  for label, text, mod in mixed_cases(env, rm, 120 if thorough else 14):
    try:
      cases.append((label, build_exportable(env, text, mod), {"kind": "exportable", "text": text, "module": mod}, True))
      n_mixed += 1
    except Exception as e:  # pylint: disable=broad-except
      res.obligation("generator:mixed-resolution-stub-builds", False, "%s (%s): %s: %s" % (label, mod, type(e).__name__, e))
  stats["mixed_resolution_asts"] = n_mixed
  rename_leg(env, res, mixed_cases(env, common.rng(res.seed, "c12-rename"), 60 if thorough else 8), stats)
  em, loader = emitted_asts(env, len(PROGRAMS) if thorough else 3, res)
  for name, ast, rp in em:
    cases.append((name, ast, rp, True))
  # the loader's resolved builtins/typing, as load_pytd.save_to_pickle serialises them (done last: it clears
  # the class pointers of the loader's modules)
  for mod in ("builtins", "typing"):
    cases.append(("stub-loaded:" + mod, loader._modules[mod].ast, {"kind": "stub-loaded", "module": mod}, True))  # pylint: disable=protected-access
  for name, ast, rp, must_be_in_g in cases:
    ast_case(env, res, model, hv[0], name, ast, rp, must_be_in_g, stats, mism)
  # serialising the loader's builtins cleared the class pointers of the process-wide cached builtins AST in
  # place; pytype's own save_to_pickle discards that cache for this reason, and so must we
  env.builtin_stubs.InvalidateCache()
  # ASTs with a real history before serialisation (loader resolution, lookups, printing, verification ...)
  rh = common.rng(res.seed, "c12-history")
  for rep in range(3 if thorough else 1):
    for name, ast, rp, plain_bytes in history_cases(env, rh, len(HIST_PROGRAMS)):
      rp = dict(rp, seed=res.seed, rep=rep)
      rt = ast_case(env, res, model, hv[0], "%s#%d" % (name, rep), ast, rp, True, stats, mism,
                    src_path="hist/%s.py" % name.split(":")[1], metadata=["m:" + name])
      stats["history_asts"] = stats.get("history_asts", 0) + 1
      if rt is not None and "b1" in rt and rt["b1"] != plain_bytes and len(res.violations) < 3:
        res.violation("bytes-depend-on-lookup-history",
                      "%s: serialising the declarations after lookups/printing/verification gives other bytes "
                      "than serialising them unused (%d vs %d bytes)" % (name, len(rt["b1"]), len(plain_bytes)), rp)
    n_items, fails = bundle_cases(env, rh, res)
    stats["bundle_modules"] = stats.get("bundle_modules", 0) + n_items
    for mod, fail in fails[:2]:
      if len(res.violations) < 3:
        res.violation("bundle:" + fail.split(":")[0][:60], "save_to_pickle/LoadBuiltins, module %s: %s" % (mod, fail),
                      {"kind": "bundle", "seed": res.seed, "rep": rep, "module": mod})
  if model:
    model.flush()
  if pmodel:
    pmodel.flush()
  lap("whole-AST round trips")

  # ---- 5. node-level: schema violations (and a few borderline conforming values) ----
  node_cases(env, res, model, hv[0], r, g, stats, mism, thorough)
  # ---- 6. msgpack trees no encoder produced ----
  raw_cases(env, res, model, hv[0], r, g, stats, mism, 12000 if thorough else 700)
  if model:
    model.flush()
  lap("node-level + mutated trees")
  # ---- 7. byte stability across processes (different hash seeds => different set iteration orders) ----
  cross_process(env, res, stats)
  lap("cross-process bytes")

  pm = [m for m in mism if m["check"].startswith("prepare")]
  mism = [m for m in mism if not m["check"].startswith("prepare")]
  res.obligation("correspondence:prepare-model-vs-SerializeAst", not pm and pmodel is not None,
                 ("%d disagreements; first: %s" % (len(pm), json.dumps(pm[:3])[:1500])) if pm else
                 ("model not built" if pmodel is None else
                  "%d ASTs: model's prepare(input) == real SerializeAst result (%d inside the theorems' domain unit_ok, "
                  "%d resolved class pointers cleared)" % (stats.get("prep_cases", 0), stats.get("prep_in_domain", 0),
                                                            stats.get("prep_pointers", 0))))
  res.obligation("correspondence:model-vs-msgspec", not mism and model is not None,
                 ("%d disagreements; first: %s" % (len(mism), json.dumps(mism[:3])[:1500])) if mism else
                 ("model not built" if model is None else "all answers agree"))
  res.extra["stats"] = stats
  res.extra["hash_variant"] = {"o": "unchanged: hash(self.type_list)", "x": "fixed: hash(frozenset(type_list))"}.get(hv[0], hv[0])
  res.extra["phase_wall_s"] = round(time.time() - t_start, 1)
  if thorough:
    ok, out = common_coqchk("C12")
    res.obligation("coqchk", ok, out[-1500:])
  return "proof"


# ---------------------------------------------------------------------------------------------
def count_nodes(tokens):
  return sum(1 for t in tokens if t == "c")


def ast_case(env, res, model, hv, name, ast, replay_obj, must_be_in_g, stats, mism, src_path=None, metadata=None):
  rt = roundtrip_real(env, ast, src_path=src_path or name + ".py", metadata=metadata or ["m:" + name])
  fail = oracle_failure(rt)
  sa = rt["sa"]
  vt = rt["sa_tokens"]
  stats["asts"] += 1
  n_nodes = count_nodes(vt)
  stats["ast_nodes"] += n_nodes
  res.count(common.sha(" ".join(vt).encode()) if n_nodes > 1 else None)
  if len(res.samples) < 3 and 5 < n_nodes < 60:
    res.sample({"case": name, "nodes": n_nodes, "bytes": len(rt.get("b1", b"")), "oracle": fail or "round trip ok"})
  real_ok = False
  if "sa2" in rt:
    real_ok = rt["sa2_tokens"] == vt
    if not real_ok and not fail:
      fail = "decoded SerializableAst differs structurally from the one encoded"
  if fail:
    if fail.startswith("encode: OverflowError"):
      # msgpack has no integers beyond 64 bits; a stub may contain one (Literal[2**64], Final = 2**64)
      res.violation("int-exceeds-64-bit", "%s: Serialize raises %s" % (name, fail), replay_obj)
    elif len(res.violations) < 3:
      kind = fail.split(":")[0][:60]
      small = shrink_case(env, ast, replay_obj, kind)
      res.violation("roundtrip:" + kind, "%s: %s" % (name, fail), small)
  pmodel = getattr(env, "pmodel", None)
  snap = rt.get("prep_in")
  if pmodel and snap is not None and len(snap["tokens"]) + len(vt) <= env.prep_budget:
    def pcb(ans, _name=name, _fail=fail, _must=must_be_in_g):
      stats["prep_cases"] = stats.get("prep_cases", 0) + 1
      if ans[:1] == "1":
        stats["prep_in_domain"] = stats.get("prep_in_domain", 0) + 1
      if len(ans) != 2 or ans[1] != "1":
        mism.append({"case": _name, "check": "prepare(input)==SerializeAst(input)", "model": ans, "expected": "?1", "oracle": _fail})
      elif _must and ans[0] != "1" and not _fail:
        mism.append({"case": _name, "check": "prepare: emitted/loaded AST outside unit_ok", "model": ans, "expected": "11", "oracle": _fail})
    stats["prep_pointers"] = stats.get("prep_pointers", 0) + snap["n_pointers"]
    sp = src_path or name + ".py"
    md = metadata or ["m:" + name]
    pmodel.ask(["Q", hv, str(snap["n_strs"])] + snap["table"] + [c12_gen.hexs(sp), "(", "l"] + [c12_gen.hexs(x) for x in md] + [")"]
               + snap["tokens"] + vt, pcb)
  elif snap is not None:
    stats["prep_skipped_large"] = stats.get("prep_skipped_large", 0) + 1
  if not model:
    return rt
  def note(kind, want):
    def cb(ans):
      if ans != want:
        mism.append({"case": name, "check": kind, "model": ans, "expected": want, "oracle": fail})
    return cb
  model.ask(["C", hv, "S:SerializableAst"] + vt, note("conforms-vs-real-roundtrip", "1" if real_ok else "0"))
  if "b1" in rt:
    mt = c12_gen.mval_tokens(env.msgspec.msgpack.decode(rt["b1"]))
    model.ask(["E"] + vt + mt, note("encode-tree", "1"))
    if "sa2" in rt:
      model.ask(["D", hv, "S:SerializableAst"] + mt + rt["sa2_tokens"], note("decode-value", "S1"))
    else:
      model.ask(["D", hv, "S:SerializableAst"] + mt + ["!"], note("decode-fails", "F1"))
  if must_be_in_g is None:
    model.ask(["G"] + vt, note("edge-AST-outside-G", "0"))
  elif must_be_in_g:
    model.ask(["G"] + vt, note("emitted/loaded-AST-in-G", "1"))
  else:
    model.ask(["G"] + vt, note("generated-AST-in-G", "1"))
  return rt


def failure_kind(env, ast):
  try:
    rt = roundtrip_real(env, ast, src_path="s.py", metadata=["s"])
  except Exception as e:  # pylint: disable=broad-except
    return "crash:" + type(e).__name__
  fail = oracle_failure(rt)
  if not fail and "sa2" in rt and rt["sa2_tokens"] != rt["sa_tokens"]:
    fail = "decoded SerializableAst differs structurally from the one encoded"
  return fail.split(":")[0][:60] if fail else None


def shrink_case(env, ast, replay_obj, kind, budget_s=15.0):
  """Greedy, time-bounded: drop declarations (expr cases) or lines (pyi cases) while the same failure remains."""
  deadline = time.time() + budget_s
  try:
    if replay_obj.get("kind") == "expr":
      u = eval(replay_obj["expr"], env.ns())  # pylint: disable=eval-used
      def bad(c):
        return time.time() < deadline and failure_kind(env, eval(c12_gen.to_expr(c), env.ns())) == kind  # pylint: disable=eval-used
      if not bad(u):
        return replay_obj
      def drop_from(node, fields):
        changed = True
        while changed and time.time() < deadline:
          changed = False
          for f in fields:
            i = 0
            while i < len(getattr(node, f) or ()) and time.time() < deadline:
              items = getattr(node, f)
              cand = node.Replace(**{f: items[:i] + items[i + 1:]})
              if (yield cand):
                node = cand
                changed = True
              else:
                i += 1
        return node
      def run(gen, wrap):
        try:
          cand = next(gen)
          while True:
            cand = gen.send(bad(wrap(cand)))
        except StopIteration as e:
          return e.value
      u = run(drop_from(u, ["constants", "type_params", "classes", "functions", "aliases"]), lambda c: c)
      for ci in range(len(u.classes)):
        def wrap(c, ci=ci):
          return u.Replace(classes=u.classes[:ci] + (c,) + u.classes[ci + 1:])
        c2 = run(drop_from(u.classes[ci], ["methods", "constants", "classes", "bases", "decorators", "template", "keywords"]), wrap)
        u = wrap(c2)
      for fi in range(len(u.functions)):
        def wrapf(f, fi=fi):
          return u.Replace(functions=u.functions[:fi] + (f,) + u.functions[fi + 1:])
        f2 = run(drop_from(u.functions[fi], ["signatures", "decorators"]), wrapf)
        u = wrapf(f2)
      return {"kind": "expr", "expr": c12_gen.to_expr(u), "shrunk": True}
    if replay_obj.get("kind") in ("pyi", "exportable"):
      build = parse_pyi if replay_obj["kind"] == "pyi" else build_exportable
      lines = replay_obj["text"].split("\n")
      def bad_text(ls):
        if time.time() > deadline:
          return False
        try:
          return failure_kind(env, build(env, "\n".join(ls), replay_obj["module"])) == kind
        except Exception:  # pylint: disable=broad-except
          return False
      if not bad_text(lines):
        return replay_obj
      i = len(lines) - 1
      while i >= 0 and time.time() < deadline:
        cand = lines[:i] + lines[i + 1:]
        if bad_text(cand):
          lines = cand
        i -= 1
      return {"kind": replay_obj["kind"], "text": "\n".join(lines), "module": replay_obj["module"], "shrunk": True}
  except Exception:  # pylint: disable=broad-except
    pass
  return replay_obj


def spec_for(env, obj, r):
  """A decoder type under which obj is a legal top-level value: its own class, or a field that lists it."""
  n = type(obj).__name__
  p = env.pytd
  if isinstance(obj, p.Type) and r.random() < 0.5 and n not in ("Type", "_SetOfTypes"):
    return r.choice(["F:Constant.type", "F:Alias.type", "F:Parameter.mutated_type", "F:Literal.value"])
  return "S:" + n


def node_cases(env, res, model, hv, r, g, stats, mism, thorough):
  items = []
  for label, build in c12_gen.negatives(env.pytd, env.serialize_ast):
    try:
      obj = build()
    except Exception as e:  # pylint: disable=broad-except
      res.extra.setdefault("negatives_not_constructible", []).append("%s: %s" % (label, type(e).__name__))
      continue
    items.append(("neg:" + label, obj, "S:" + type(obj).__name__))
    if isinstance(obj, env.pytd.Type) and type(obj).__name__ not in ("Type",):
      items.append(("neg-in-union:" + label, obj, "F:Constant.type"))
  # positives at node level, under their own class and under unions that list them
  for i in range(3000 if thorough else 250):
    obj = r.choice([lambda: g.type(r.randint(0, 3)), lambda: g.constant(2), lambda: g.signature(2),
                    lambda: g.function(1), lambda: g.klass(1), lambda: g.alias(1), lambda: g.param(2),
                    lambda: g.tparam(2)])()
    items.append(("node%d" % i, obj, spec_for(env, obj, r)))
  # a listed class under a union that does NOT list it
  for i, (obj, spec) in enumerate([
      (env.pytd.Module("a", "b"), "F:Constant.type"), (env.pytd.Module("a", "b"), "F:Alias.type"),
      (g.constant(1), "F:Constant.type"), (g.constant(1), "F:Literal.value"), (g.function(1), "F:Literal.value"),
      (g.function(1), "F:Alias.type"), (env.pytd.UnionType((env.pytd.NamedType("a"),)), "F:GenericType.base_type"),
      (env.pytd.LateType("a"), "F:GenericType.base_type"), (g.param(1), "F:Signature.starargs"),
      (g.tparam(1), "F:TemplateItem.type_param"), (env.pytd.NamedType("T"), "F:TemplateItem.type_param"),
      (env.pytd.TupleType(env.pytd.NamedType("t"), ()), "S:GenericType"),      # a subclass is not accepted
      (env.pytd.ParamSpec("P"), "S:TypeParameter"),
      (env.pytd.GenericType(env.pytd.NamedType("t"), ()), "S:TupleType"),
      (env.pytd.UnionType((env.pytd.NamedType("a"),)), "S:IntersectionType"),
      (env.pytd.AnythingType(), "F:Constant.value"), (env.pytd.NothingType(), "F:Constant.value"),
  ]):
    items.append(("listed%d" % i, obj, spec))
  for label, obj, spec in items:
    try:
      vt = c12_gen.value_tokens(obj)
    except (c12_gen.Untranslatable, RecursionError):
      continue
    ok, detail, _ = node_roundtrip_real(env, spec, obj)
    is_neg = label.startswith("neg") or label.startswith("listed")
    if is_neg:
      stats["neg"] += 1
      if not ok:
        stats["neg_rejected_by_both"] += 1      # corrected below if the model disagrees
    res.count(common.sha((spec + " ".join(vt)).encode()))
    if model:
      def cb(ans, label=label, ok=ok, detail=detail, spec=spec, obj=obj, is_neg=is_neg):
        if ans != ("1" if ok else "0"):
          if is_neg and not ok:
            stats["neg_rejected_by_both"] -= 1
          mism.append({"case": label, "check": "node-conforms-vs-real", "spec": spec, "model": ans,
                       "real": detail, "expr": c12_gen.to_expr(obj)[:400]})
      model.ask(["C", hv, spec] + vt, cb)
    # the positives must satisfy the property itself
    if not is_neg and not ok and len(res.violations) < 3:
      res.violation("node-roundtrip:" + type(obj).__name__, "%s under %s: %s" % (label, spec, detail),
                    {"kind": "node", "spec": spec, "expr": c12_gen.to_expr(obj)})


def raw_cases(env, res, model, hv, r, g, stats, mism, n):
  if not model:
    return
  enc = env.pickle_utils.Encoder
  seeds = []
  for i in range(40):
    obj = r.choice([lambda: g.type(r.randint(1, 3)), lambda: g.constant(2), lambda: g.function(1),
                    lambda: g.klass(1, 0), lambda: g.signature(1), lambda: g.tparam(2)])()
    spec = spec_for(env, obj, r)
    seeds.append((spec, env.msgspec.msgpack.decode(enc.encode(obj))))
  for i in range(6):
    sa = env.serialize_ast.SerializeAst(g.unit(2), src_path=None, metadata=["x"])
    seeds.append(("S:SerializableAst", env.msgspec.msgpack.decode(enc.encode(sa))))
  done = 0
  tries = 0
  kinds = {}
  while done < n and tries < 10 * n:
    tries += 1
    spec, tree = r.choice(seeds)
    m = c12_gen.mutate_tree(r, tree)
    if m is None:
      continue
    label, t2 = m
    try:
      b = env.msgspec.msgpack.encode(t2)
      mt = c12_gen.mval_tokens(t2)
    except Exception:  # pylint: disable=broad-except
      continue
    try:
      obj = env.decoder(spec).decode(b)
      want = "S1"
      exp = c12_gen.value_tokens(obj)
      stats["raw_accepted"] += 1
    except c12_gen.Untranslatable:
      continue
    except RecursionError:
      continue
    except Exception as e:  # pylint: disable=broad-except
      want = "F1"
      exp = ["!"]
    done += 1
    stats["raw"] += 1
    kinds[label.split(":")[0]] = kinds.get(label.split(":")[0], 0) + 1
    res.count(common.sha((spec + " ".join(mt)).encode()))
    def cb(ans, label=label, want=want, spec=spec, t2=t2):
      if ans != want:
        mism.append({"case": "raw:" + label, "check": "decode-of-mutated-tree", "spec": spec, "model": ans,
                     "expected": want, "tree": repr(t2)[:600]})
    model.ask(["D", hv, spec] + mt + exp, cb)
  res.extra["raw_mutation_histogram"] = kinds


RESOLVED_SRC = """
import builtins
from typing import Callable, List, Tuple, Union

class Box:
    item: int
    other: builtins.int
    many: List[int]
    more: List[builtins.int]
    pair: Tuple[int, builtins.str]
    fn: Callable[[builtins.int], str]
    me: 'Box'

class Crate(Box):
    inner: Box

Alias = Box

def f(x: Union[int, str, builtins.int]) -> Union[builtins.str, str]: ...
def g(b: Box, a: Alias, c: List[Box]) -> Tuple[Box, ...]: ...
"""


def resolved_ast(env):
  """A stub resolved the way the loader / pytd's ParseWithBuiltins do: class pointers set."""
  loader = env.load_pytd.create_loader(env.options)
  v = env.visitors
  ast = parse_pyi(env, RESOLVED_SRC, "res")
  ast = ast.Visit(v.LookupExternalTypes({"builtins": loader.builtins, "typing": loader.typing}, self_name="res"))
  ast = ast.Visit(v.NamedTypeToClassType())
  ast = ast.Visit(v.AdjustTypeParameters())
  ast.Visit(v.FillInLocalPointers({"": ast, "res": ast, "builtins": loader.builtins, "typing": loader.typing}))
  ast.Visit(v.VerifyVisitor())
  return ast, loader


def collect_types(env, ast):
  out = []

  class V(env.visitors.Visitor):

    def EnterClassType(self, t):  # pylint: disable=invalid-name
      out.append(t)

    def EnterGenericType(self, t):  # pylint: disable=invalid-name
      out.append(t)

    def EnterTupleType(self, t):  # pylint: disable=invalid-name
      out.append(t)

    def EnterCallableType(self, t):  # pylint: disable=invalid-name
      out.append(t)

    def EnterUnionType(self, t):  # pylint: disable=invalid-name
      out.append(t)
  ast.Visit(V())
  return out


def resolved_pool(env):
  """Deterministic pool of RESOLVED type nodes: the same class under two names, two classes under one name,
  resolved next to unresolved, and generics/unions/tuples/callables over them."""
  p = env.pytd
  ast, loader = resolved_ast(env)
  pool = collect_types(env, ast)
  mk = lambda name, **kw: p.Class(**{**dict(name=name, keywords=(), bases=(), methods=(), constants=(), classes=(),
                                            decorators=(), slots=None, template=()), **kw})
  c1 = mk("m.A")
  c2 = mk("n.A", slots=("x",))
  int_cls = loader.builtins.Lookup("builtins.int")
  str_cls = loader.builtins.Lookup("builtins.str")
  cts = [p.ClassType("A", c1), p.ClassType("A", c2), p.ClassType("A"), p.ClassType("m.A", c1),
         p.ClassType("Alias", c1), p.ClassType("n.A", c2), p.ClassType("m.A"),
         p.ClassType("int", int_cls), p.ClassType("builtins.int", int_cls), p.ClassType("builtins.int"),
         p.ClassType("int"), p.ClassType("str", str_cls), p.ClassType("builtins.str", str_cls),
         p.ClassType("builtins.str", int_cls)]
  pool += cts
  lst = p.ClassType("builtins.list", loader.builtins.Lookup("builtins.list"))
  tup = p.ClassType("builtins.tuple", loader.builtins.Lookup("builtins.tuple"))
  for a in cts:
    pool.append(p.GenericType(lst, (a,)))
    pool.append(p.GenericType(a, ()))
  for a, b in [(cts[0], cts[1]), (cts[3], cts[4]), (cts[7], cts[8]), (cts[8], cts[7]), (cts[7], cts[11]),
               (cts[0], cts[2]), (cts[8], cts[9]), (cts[4], cts[3]), (cts[10], cts[7])]:
    pool.append(p.UnionType((a, b)))
    pool.append(p.UnionType((b, a)))
    pool.append(p.TupleType(tup, (a, b)))
    pool.append(p.CallableType(p.ClassType("typing.Callable"), (a, b)))
    pool.append(p.GenericType(lst, (p.UnionType((a, b)),)))
  return pool, ast


def resolved_oracles(env, res, pool, ast, stats):
  """Consequences of the law on the real, resolved objects: == is an equivalence, sets/dicts keep no two equal
  types, and which types are equal to which survives pickling."""
  p = env.pytd
  n = len(pool)
  eq = [[bool(pool[i] == pool[j]) for j in range(n)] for i in range(n)]
  orig = res
  class _Capped:   # at most three reported violations per run
    @staticmethod
    def violation(fp, what, replay_obj):
      if len(orig.violations) < 3 or fp in orig.known:
        orig.violation(fp, what, replay_obj)
  res = _Capped
  def rp(i, j, k=None):
    return {"kind": "eqhash-resolved", "i": i, "j": j, "k": k}
  reported = 0
  for i in range(n):
    for j in range(n):
      if eq[i][j] != eq[j][i] and reported < 2:
        reported += 1
        res.violation("eq-not-symmetric:%s" % type(pool[i]).__name__,
                      "%r == %r is %s but the converse is %s" % (pool[i], pool[j], eq[i][j], eq[j][i]), rp(i, j))
  cts = [i for i in range(n) if isinstance(pool[i], (p.ClassType, p.GenericType))]
  done = False
  for a in cts:
    if done:
      break
    for b in cts:
      if not eq[a][b] or done:
        continue
      for c in cts:
        if eq[b][c] and not eq[a][c]:
          res.violation("eq-not-transitive:%s" % type(pool[a]).__name__,
                        "%r (name %r) == %r (name %r) == %r (name %r), but the first != the last" % (
                            pool[a], getattr(pool[a], "name", None), pool[b], getattr(pool[b], "name", None),
                            pool[c], getattr(pool[c], "name", None)), rp(a, b, c))
          done = True
          break
  kept = list(set(pool))
  dup = [(x, y) for ix, x in enumerate(kept) for y in kept[ix + 1:] if x == y]
  if dup:
    x, y = dup[0]
    res.violation("set-keeps-equal-types:%s" % type(x).__name__,
                  "set(pool) keeps %d pairs of equal types, e.g. %r and %r" % (len(dup), x, y),
                  rp([k for k, z in enumerate(pool) if z is x][0], [k for k, z in enumerate(pool) if z is y][0]))
  table = {}
  for i, x in enumerate(pool):
    table.setdefault(x, i)
  miss = [(i, j) for i in range(n) for j in range(n) if eq[i][j] and pool[j] not in {pool[i]: 1}]
  if miss and not dup:
    i, j = miss[0]
    res.violation("dict-misses-equal-type:%s" % type(pool[i]).__name__,
                  "%r == %r but a dict keyed by the first does not find the second" % (pool[i], pool[j]), rp(i, j))
  # equal before pickling <=> equal after decoding
  canonical = ast.Visit(env.pytd_visitors.CanonicalOrderingVisitor())
  before = collect_types(env, canonical)
  eq_before = [[bool(a == b) for b in before] for a in before]
  try:
    dec = env.pickle_utils.DecodeAst(env.pickle_utils.Serialize(ast))
  except Exception as e:  # pylint: disable=broad-except
    # e.g. a class pointer that survives SerializeAst sends the encoder round a reference cycle
    env.builtin_stubs.InvalidateCache()
    res.violation("resolved-ast-does-not-serialise:" + type(e).__name__,
                  "Serialize/DecodeAst of the resolved pool's AST raises %s: %s" % (type(e).__name__, str(e)[:200]),
                  {"kind": "eqhash-resolved", "pickle": True})
    return
  env.builtin_stubs.InvalidateCache()
  after = collect_types(env, dec.ast)
  changed = None
  if len(after) != len(before):
    changed = ("count", len(before), len(after))
  else:
    for i, a in enumerate(after):
      for j, b in enumerate(after):
        if bool(a == b) != eq_before[i][j]:
          changed = (i, j, eq_before[i][j])
          break
      if changed:
        break
  stats["resolved_ast_types"] = len(before)
  if changed:
    res.violation("eq-changes-across-pickle",
                  "types #%s and #%s of the resolved stub are %s before pickling and the opposite after decoding" % changed
                  if changed[0] != "count" else "resolved stub: %d type nodes before, %d after" % changed[1:],
                  {"kind": "eqhash-resolved", "pickle": True})


def exhaustive_pool(env):
  import itertools  # pylint: disable=import-outside-toplevel
  p = env.pytd
  atoms = [p.NamedType("int"), p.NamedType("str"), p.ClassType("A"), p.AnythingType()]
  pool = []
  for k in (1, 2, 3):
    for sub in itertools.permutations(atoms, k):
      u = p.UnionType(tuple(sub))
      pool += [u, p.IntersectionType(tuple(sub)), p.GenericType(p.NamedType("list"), (u,))]
      if k == 2:
        pool += [p.UnionType((p.GenericType(p.NamedType("list"), (u,)), p.NamedType("x"))),
                 p.UnionType((p.NamedType("x"), p.GenericType(p.NamedType("list"), (u,))))]
  return pool


def eq_hash(env, res, model, pool, stats, mism, hv, decide=True, resolved=False):
  p = env.pytd
  n = len(pool)
  stats["pool"] = stats.get("pool", 0) + n
  cls_ref = {} if resolved else None
  toks = [c12_gen.value_tokens(x, None, cls_ref) for x in pool]
  if resolved:
    describe = lambda x: "%r%s" % (x, " (name %r, cls %s)" % (x.name, "set" if x.cls is not None else "None")
                                   if isinstance(x, p.ClassType) else "")
    replay_of = lambda i, j: {"kind": "eqhash-resolved", "i": i, "j": j, "k": None}
  else:
    describe = c12_gen.to_expr
    replay_of = lambda i, j: {"kind": "eqhash", "a": c12_gen.to_expr(pool[i]), "b": c12_gen.to_expr(pool[j])}
  eq = [[False] * n for _ in range(n)]
  hs = [hash(x) for x in pool]
  viol = []          # pairs violating the law on the real objects
  for i in range(n):
    for j in range(n):
      e = pool[i] == pool[j]
      eq[i][j] = bool(e)
      if e:
        stats["eq_pairs"] += 1
        if hs[i] != hs[j]:
          viol.append((i, j))
  stats["pairs"] = stats.get("pairs", 0) + n * n
  for x, t in zip(pool, toks):
    res.count(common.sha(" ".join(t).encode()) if count_nodes(t) >= 1 else None)
  state = {"lines": None}
  if model:
    model.ask(["P", str(n)] + [t for ts in toks for t in ts], lambda lines: state.update(lines=lines), n_lines=n + 1)
    model.flush()
  lines = state["lines"]
  n_w = n_w_equal = 0
  explained = set()
  if lines:
    flags = lines[0]
    # decide the variant on the pairs where the two models of __hash__ disagree
    for i in range(n):
      row = lines[i + 1]
      for j in range(n):
        d = int(row[j], 16)
        ko, kx = bool(d & 2), bool(d & 1)
        if ko != kx:
          n_w += 1
          if hs[i] == hs[j]:
            n_w_equal += 1
    if not decide:
      variant = hv[0]
    elif n_w == 0:
      res.obligation("correspondence:hash-variant-decidable", False, "the pool has no pair separating the two hash models")
      variant = "o"
    elif n_w_equal == n_w:
      variant = "x"
    elif n_w_equal == 0:
      variant = "o"
    else:
      variant = "?"
      res.obligation("correspondence:hash-variant", False,
                     "the implementation's hashes agree with neither model: %d of %d separating pairs hash equally" % (n_w_equal, n_w))
    hv[0] = variant if variant != "?" else "o"
    bit_eq, bit_k, bit_d = (8, 2, 4) if hv[0] == "o" else (4, 1, 2)
    n_bad = 0
    n_incomplete = 0
    for i in range(n):
      row = lines[i + 1]
      for j in range(n):
        d = int(row[j], 16)
        m_eq, m_k = bool(d & bit_eq), bool(d & bit_k)
        if m_eq != eq[i][j]:
          n_bad += 1
          if len(mism) < 20:
            mism.append({"check": "eqb-vs-==", "model": m_eq, "real": eq[i][j],
                         "a": describe(pool[i])[:300], "b": describe(pool[j])[:300]})
        if m_k and hs[i] != hs[j]:
          n_bad += 1
          if len(mism) < 20:
            mism.append({"check": "hkey-equal-but-hash-differs", "a": describe(pool[i])[:300],
                         "b": describe(pool[j])[:300]})
        if not m_k and hs[i] == hs[j]:
          n_incomplete += 1
        if eq[i][j] and not m_k and m_eq:
          explained.add((i, j))
    wf_bad = [i for i in range(n) if not int(flags[i]) & bit_d]
    # the side condition of the law (members of a union hash differently) on the real objects
    real_bad = []
    for i, x in enumerate(pool):
      for u in unions_in(env, x):
        if len({hash(m) for m in u.type_list}) != len(u.type_list):
          real_bad.append(i)
    tag = ":resolved" if resolved else ("" if decide else ":exhaustive")
    res.obligation("correspondence:eqb/hkey-vs-==/hash" + tag, n_bad == 0, "%d of %d pairs disagree" % (n_bad, n * n))
    res.obligation("correspondence:members-hash-distinct" + tag, set(wf_bad) == set(real_bad),
                   "model %s real %s" % (wf_bad[:5], real_bad[:5]))
    res.extra["hash_model_incomplete_pairs" + tag] = n_incomplete
    res.extra["hash_separating_pairs" + tag] = {"total": n_w, "real_hash_equal": n_w_equal}
  # ---- the law's oracle on the real objects ----
  reported_other = 0
  reported_order = 0
  viol.sort(key=lambda ij: len(toks[ij[0]]) + len(toks[ij[1]]))      # smallest witnesses first
  for i, j in viol:
    a, b = pool[i], pool[j]
    order_only = (lines is not None and (i, j) in explained and has_permuted_union(env, a, b))
    if lines is None:
      order_only = has_permuted_union(env, a, b)
    rp = replay_of(i, j)
    if order_only:
      reported_order += 1
      if reported_order > 3:
        continue
      res.violation(FINGERPRINT_UNION_HASH,
                    "%s == %s but their hashes differ (len({a, b}) == %d)" % (str(a)[:80], str(b)[:80], len({a, b})), rp)
    elif reported_other < 3:
      reported_other += 1
      res.violation("eq-hash:%s" % type(a).__name__, "a == b but hash(a) != hash(b): %s / %s" % (describe(a)[:160], describe(b)[:160]), rp)
  stats["law_violating_pairs_real"] = stats.get("law_violating_pairs_real", 0) + len(viol)


def unions_in(env, x):
  out = []

  class V(env.visitors.Visitor):

    def EnterUnionType(self, n):  # pylint: disable=invalid-name
      out.append(n)

    def EnterIntersectionType(self, n):  # pylint: disable=invalid-name
      out.append(n)
  try:
    x.Visit(V())
  except Exception:  # pylint: disable=broad-except
    pass
  return out


def has_permuted_union(env, a, b):
  """a == b and some union inside lists the same members in another order."""
  ua, ub = unions_in(env, a), unions_in(env, b)
  if len(ua) != len(ub):
    return False
  return any(x.type_list != y.type_list and frozenset(x.type_list) == frozenset(y.type_list)
             for x, y in zip(ua, ub))


def cross_process(env, res, stats):
  """The same stub text serialised under three hash seeds must give identical bytes."""
  text = PYI_TEMPLATES[0] % {"ty": "typing.Union[int, str]"} + "\nimport a.b\nimport c.d\nimport e\nimport ff.gg\nq: a.b.X\nq2: c.d.Y\nq3: e.Z\nq4: ff.gg.W\n"
  code = (
      "import sys, hashlib\n"
      "sys.path.insert(0, %r)\n"
      "import common\ncommon.bootstrap_pytype()\n"
      "from pytype import config\nfrom pytype.pyi import parser\nfrom pytype.imports import pickle_utils\n"
      "o = parser.PyiOptions.from_toplevel_options(config.Options.create(python_version=(3, 12)))\n"
      "ast = parser.parse_string(sys.stdin.read(), name='m', filename='m.pyi', options=o)\n"
      "b = pickle_utils.Serialize(ast, src_path='m.pyi', metadata=['k'])\n"
      "print(hashlib.sha256(b).hexdigest(), len(b))\n") % os.path.join(common.VERIF, "harness")
  digests = []
  procs = [subprocess.Popen([common.PY, "-c", code], stdin=subprocess.PIPE, stdout=subprocess.PIPE,
                            stderr=subprocess.PIPE, text=True, env=common.impl_env(hashseed=seed))
           for seed in ("0", "1", "31337")]
  for pr in procs:
    so, se = pr.communicate(text)
    if pr.returncode != 0:
      res.obligation("oracle:cross-process-run", False, se[-800:])
      return
    digests.append(so.strip())
  stats["cross_process_digests"] = len(set(digests))
  if len(set(digests)) != 1:
    res.violation("bytes-depend-on-hash-seed", "Serialize() of one stub gives different bytes under PYTHONHASHSEED 0/1/31337: %s" % digests,
                  {"kind": "hashseed", "text": text})


def load_corpus(env, res):
  out = []
  cdir = os.path.join(common.CORPUS, "C12")
  for f in sorted(os.listdir(cdir)) if os.path.isdir(cdir) else []:
    d = json.load(open(os.path.join(cdir, f)))
    if d.get("kind") == "eqhash":
      out.append((eval(d["a"], env.ns()), eval(d["b"], env.ns())))  # pylint: disable=eval-used
  return out


def common_coqchk(pid):
  r = subprocess.run(["timeout", "1500", "coqchk", "-silent", "-o", "-Q", common.COQ, "PV", f"PV.Props.{pid}"],
                     capture_output=True, text=True, cwd=common.COQ)
  return r.returncode == 0, r.stdout + r.stderr


# ---------------------------------------------------------------------------------------------
def replay(res, path):
  env = Env()
  d = json.load(open(path))
  rp = d.get("replay") or {}
  kind = rp.get("kind")
  if kind == "eqhash":
    a, b = eval(rp["a"], env.ns()), eval(rp["b"], env.ns())  # pylint: disable=eval-used
    print("a =", a)
    print("b =", b)
    print("a == b:", a == b, " hash(a) == hash(b):", hash(a) == hash(b), " len({a, b}):", len({a, b}))
    return 1 if (a == b and hash(a) != hash(b)) else 0
  if kind in ("pyi", "expr", "program", "stub-raw", "stub-loaded", "exportable"):
    if kind == "pyi":
      ast = parse_pyi(env, rp["text"], rp["module"])
    elif kind == "exportable":
      print("module %r through serialize_ast.SourceToExportableAst:" % rp["module"])
      print(rp["text"])
      ast = build_exportable(env, rp["text"], rp["module"])
    elif kind == "expr":
      ast = eval(rp["expr"], env.ns())  # pylint: disable=eval-used
    elif kind == "stub-raw":
      ast = parse_pyi(env, open(os.path.join(common.REPO, "pytype", "stubs", "builtins", rp["module"] + ".pytd")).read(), rp["module"])
    elif kind == "stub-loaded":
      loader = env.load_pytd.create_loader(env.options)
      loader.builtins  # pylint: disable=pointless-statement
      ast = loader._modules[rp["module"]].ast  # pylint: disable=protected-access
    else:
      loader = env.load_pytd.create_loader(env.options)
      ret, _ = env.io.generate_pyi(rp["src"], env.options, loader)
      ast = env.serialize_ast.PrepareForExport(rp["module"], ret.ast, loader)
    rt = roundtrip_real(env, ast, src_path="replay.py", metadata=["replay"])
    fail = oracle_failure(rt)
    if not fail and "sa2" in rt and rt["sa2_tokens"] != rt["sa_tokens"]:
      fail = "decoded SerializableAst differs structurally from the one encoded"
    print("round trip:", fail or "ok")
    return 1 if fail else 0
  if kind == "rename":
    r2 = common.Result("C12", "quick", 0)
    r2.known = {}
    rename_leg(env, r2, [("replay", rp["text"], rp["module"])], {})
    print("module %r serialised, then loaded as %r:" % (rp["module"], rp["new_module"]),
          "VIOLATED: " + r2.violations[0]["what"] if r2.violations else "same declarations, equal nodes hash equally")
    return 1 if r2.violations else 0
  if kind == "eqhash-resolved":
    pool, ast = resolved_pool(env)
    if rp.get("pickle"):
      r2 = common.Result("C12", "quick", 0)
      r2.known = {}
      resolved_oracles(env, r2, pool, ast, {})
      bad = [v for v in r2.violations if v["fingerprint"] == "eq-changes-across-pickle"
             or v["fingerprint"].startswith("resolved-ast-does-not-serialise")]
      print("equal before pickling <=> equal after decoding:", "VIOLATED: " + bad[0]["what"] if bad else "holds")
      return 1 if bad else 0
    a, b = pool[rp["i"]], pool[rp["j"]]
    show = lambda x: "%r name=%r cls=%s" % (x, getattr(x, "name", None), "<%s at %#x>" % (x.cls.name, id(x.cls)) if getattr(x, "cls", None) is not None else None)
    print("a =", show(a))
    print("b =", show(b))
    print("a == b:", a == b, " b == a:", b == a, " hash(a) == hash(b):", hash(a) == hash(b), " len({a, b}):", len({a, b}))
    bad = (a == b and hash(a) != hash(b)) or ((a == b) != (b == a)) or (a == b and len({a, b}) != 1)
    if rp.get("k") is not None:
      c = pool[rp["k"]]
      print("c =", show(c))
      print("b == c:", b == c, " a == c:", a == c)
      bad = bad or (a == b and b == c and not a == c)
    return 1 if bad else 0
  if kind in ("history", "bundle"):
    rh = common.rng(rp["seed"], "c12-history")
    for rep in range(rp["rep"] + 1):
      env.builtin_stubs.InvalidateCache()
      cases = history_cases(env, rh, len(HIST_PROGRAMS))
      if rep == rp["rep"] and kind == "history":
        for name, ast, _, plain_bytes in cases:
          if name == rp["case"]:
            rt = roundtrip_real(env, ast, src_path="hist/%s.py" % name.split(":")[1], metadata=["m:" + name])
            fail = oracle_failure(rt)
            if not fail and "sa2" in rt and rt["sa2_tokens"] != rt["sa_tokens"]:
              fail = "decoded SerializableAst differs structurally from the one encoded"
            if not fail and rt.get("b1") != plain_bytes:
              fail = "bytes depend on the lookup history (%d vs %d bytes)" % (len(rt["b1"]), len(plain_bytes))
            print("%s (module serialised after lookups/printing/verification): %s" % (name, fail or "ok"))
            return 1 if fail else 0
      n_items, fails = bundle_cases(env, rh, res)
      if rep == rp["rep"] and kind == "bundle":
        for mod, fail in fails:
          print("save_to_pickle/LoadBuiltins, module %s: %s" % (mod, fail))
        if not fails:
          print("bundle of %d modules: ok" % n_items)
        return 1 if fails else 0
    return 0
  if kind == "node":
    obj = eval(rp["expr"], env.ns())  # pylint: disable=eval-used
    ok, detail, _ = node_roundtrip_real(env, rp["spec"], obj)
    print("node round trip under", rp["spec"], ":", detail)
    return 0 if ok else 1
  if kind == "hashseed":
    stats = {}
    cross_process(env, res, stats)
    print("distinct digests:", stats.get("cross_process_digests"))
    return 0 if stats.get("cross_process_digests") == 1 else 1
  print("nothing to replay in", path, "(a failed obligation without a concrete input); rerun:", d.get("rerun"))
  return 1


def generate():
  """Called by harness/setup.py before the Coq build (coq/Generated is not committed)."""
  env = Env()
  sch = c12_schema.translate(env.pytd, env.serialize_ast, env.pickle_utils)
  common.write_if_changed(os.path.join(common.COQ, "Generated", "C12_Schema.v"), sch.text)
